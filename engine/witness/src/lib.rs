//! Compile-fail witnesses (E3): type-level restatements of facts the fact driver extracts.
//! Every `compile_fail,E0xxx` block has a compiling twin that differs only in the offending line,
//! so a witness cannot pass merely because its path is wrong.
//! Run with `cargo +nightly test --doc --offline` (error codes are only checked on nightly).

/// C14.V — the rank-map invariant fields of the oligo computer cannot be written from outside.
/// ```compile_fail,E0616
/// let mut c = composition::oligo::OligoComputer::new("in.fa".to_string(), "out".to_string(), 3);
/// c.kcount = 1; // private: would break `get_unchecked` bounds
/// c.set_norm(false);
/// ```
/// ```no_run
/// let mut c = composition::oligo::OligoComputer::new("in.fa".to_string(), "out".to_string(), 3);
/// c.set_norm(false);
/// ```
pub struct OligoFieldsPrivate;

/// C14.V — `ksize` (the k the rank map was built with) cannot be changed after construction.
/// ```compile_fail,E0616
/// let mut c = composition::oligo::OligoComputer::new("in.fa".to_string(), "out".to_string(), 3);
/// c.ksize = 7;
/// c.set_header(true);
/// ```
/// ```no_run
/// let mut c = composition::oligo::OligoComputer::new("in.fa".to_string(), "out".to_string(), 3);
/// c.set_header(true);
/// ```
pub struct OligoKsizePrivate;

/// C14.V — the histogram length `bin_count` is private.
/// ```compile_fail,E0616
/// let mut c = coverage::CovComputer::new("in.fa".to_string(), "out".to_string(), 7, 16, 16);
/// c.bin_count = 0;
/// c.set_norm(false);
/// ```
/// ```no_run
/// let mut c = coverage::CovComputer::new("in.fa".to_string(), "out".to_string(), 7, 16, 16);
/// c.set_norm(false);
/// ```
pub struct CovBinCountPrivate;

/// C14.W — the raw mapped write is an `unsafe fn`: it cannot be called outside `unsafe`.
/// ```compile_fail,E0133
/// let mut buf = vec![0u8; 8];
/// let w: ktio::mmap::MMWriter<u8> = ktio::mmap::MMWriter::new(&mut buf[..]);
/// w.write_at(b"ab", 0);
/// ```
/// ```no_run
/// let mut buf = vec![0u8; 8];
/// let w: ktio::mmap::MMWriter<u8> = ktio::mmap::MMWriter::new(&mut buf[..]);
/// unsafe { w.write_at(b"ab", 0); }
/// assert_eq!(&buf[..2], b"ab");
/// ```
pub struct WriteAtIsUnsafe;

/// C13.O — a core k-mer generator cannot outlive the bytes it reads (the guarantee the Python
/// binding's lifetime extension has to re-establish by co-owning the Arc).
/// ```compile_fail,E0597
/// let g;
/// {
///     let v = vec![b'A'; 8];
///     g = kmer::kmer::KmerGenerator::new(&v, 3);
/// }
/// let _n = g.count();
/// ```
/// ```no_run
/// let v = vec![b'A'; 8];
/// let g = kmer::kmer::KmerGenerator::new(&v, 3);
/// assert_eq!(g.count(), 6);
/// ```
pub struct GeneratorBorrowsItsInput;

/// C13.O — same for the minimiser generator.
/// ```compile_fail,E0597
/// let g;
/// {
///     let v = vec![b'A'; 40];
///     g = kmer::minimiser::MinimiserGenerator::new(&v, 10, 5);
/// }
/// let _n = g.count();
/// ```
/// ```no_run
/// let v = vec![b'A'; 40];
/// let g = kmer::minimiser::MinimiserGenerator::new(&v, 10, 5);
/// assert!(g.count() >= 1);
/// ```
pub struct MinimiserBorrowsItsInput;

/// C07/C17.C — chunk bookkeeping of the counter is private.
/// ```compile_fail,E0616
/// fn poke(c: &mut counter::CountComputer) { c.chunks = 3; }
/// ```
/// ```no_run
/// fn poke(c: &mut counter::CountComputer) { c.set_threads(2); }
/// ```
pub struct CounterChunksPrivate;
