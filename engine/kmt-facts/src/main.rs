//! kmt-facts: a rustc_private driver that dumps the type-checked program of one
//! compilation unit as JSON facts (typed HIR trees with resolved callees, ADTs,
//! impls, compiler-evaluated constants, MIR call/assert terminators).
//!
//! Used as RUSTC_WORKSPACE_WRAPPER: argv = [driver, rustc, rustc-args...].
//! Facts go to $KMT_FACTS_DIR/<crate>-<type>-<metadata>.json, one write per process.

#![feature(rustc_private)]
#![allow(clippy::all)]

extern crate rustc_ast;
extern crate rustc_driver;
extern crate rustc_hir;
extern crate rustc_interface;
extern crate rustc_middle;
extern crate rustc_span;

mod json;
use json::J;

use rustc_driver::Compilation;
use rustc_hir as hir;
use rustc_hir::def::{DefKind, Res};
use rustc_hir::def_id::{DefId, LocalDefId};
use rustc_middle::mir;
use rustc_middle::ty::print::{with_crate_prefix, with_no_trimmed_paths};
use rustc_middle::ty::{self, TyCtxt};
use rustc_span::Span;

struct Cb {
    out_dir: Option<String>,
    tag: String,
}

impl rustc_driver::Callbacks for Cb {
    fn after_analysis<'tcx>(
        &mut self,
        _c: &rustc_interface::interface::Compiler,
        tcx: TyCtxt<'tcx>,
    ) -> Compilation {
        if let Some(dir) = &self.out_dir {
            let facts = extract(tcx);
            let mut s = String::with_capacity(1 << 20);
            facts.write(&mut s);
            let path = format!("{}/{}.json", dir, self.tag);
            let tmp = format!("{}.tmp{}", path, std::process::id());
            std::fs::write(&tmp, s.as_bytes()).expect("kmt-facts: cannot write facts");
            std::fs::rename(&tmp, &path).expect("kmt-facts: cannot rename facts");
        }
        Compilation::Continue
    }
}

fn main() {
    let mut args: Vec<String> = std::env::args().collect();
    // wrapper protocol: argv[1] is the real rustc path
    if args.len() > 1 && (args[1].ends_with("rustc") || args[1].contains("/rustc")) {
        args.remove(1);
    }
    let mut crate_name = String::from("unknown");
    let mut crate_type = String::from("lib");
    let mut metadata = String::from("0");
    let mut is_probe = false;
    let mut i = 0;
    while i < args.len() {
        let a = &args[i];
        if a == "--crate-name" && i + 1 < args.len() {
            crate_name = args[i + 1].clone();
        } else if a == "--crate-type" && i + 1 < args.len() {
            crate_type = args[i + 1].clone();
        } else if a == "-C" && i + 1 < args.len() {
            if let Some(m) = args[i + 1].strip_prefix("metadata=") {
                metadata = m.to_string();
            }
        } else if let Some(m) = a.strip_prefix("-Cmetadata=") {
            metadata = m.to_string();
        } else if a == "-vV" || a == "--version" || a.starts_with("--print") {
            is_probe = true;
        }
        i += 1;
    }
    if crate_name == "___" || crate_name == "unknown" {
        is_probe = true;
    }
    let out_dir = if is_probe {
        None
    } else {
        std::env::var("KMT_FACTS_DIR").ok()
    };
    let pkg = std::env::var("CARGO_PKG_NAME").unwrap_or_default();
    let tag = format!("{}-{}-{}-{}", pkg, crate_name, crate_type, metadata);
    let mut cb = Cb { out_dir, tag };
    rustc_driver::run_compiler(&args, &mut cb);
}

// ---------------------------------------------------------------------------

fn loc(tcx: TyCtxt<'_>, sp: Span) -> String {
    let sp = sp.source_callsite();
    let sm = tcx.sess.source_map();
    let lo = sm.lookup_char_pos(sp.lo());
    let name = match &lo.file.name {
        rustc_span::FileName::Real(r) => match r.local_path() {
            Some(p) => p.to_string_lossy().to_string(),
            None => format!("{:?}", r),
        },
        other => format!("{:?}", other),
    };
    format!("{}:{}:{}", name, lo.line, lo.col.0 + 1)
}

fn macro_chain(sp: Span) -> Option<String> {
    if !sp.from_expansion() {
        return None;
    }
    let mut names: Vec<String> = Vec::new();
    let mut cur = sp;
    let mut guard = 0;
    while cur.from_expansion() && guard < 32 {
        let ed = cur.ctxt().outer_expn_data();
        match ed.kind {
            rustc_span::ExpnKind::Macro(_, name) => names.push(name.to_string()),
            rustc_span::ExpnKind::Desugaring(k) => names.push(format!("desugar:{:?}", k)),
            rustc_span::ExpnKind::AstPass(k) => names.push(format!("astpass:{:?}", k)),
            rustc_span::ExpnKind::Root => {}
        }
        cur = ed.call_site;
        guard += 1;
    }
    Some(names.join(">"))
}

thread_local! {
    static CRATE: std::cell::RefCell<String> = std::cell::RefCell::new(String::new());
}

/// local items print as `crate::…`; rewrite to `<crate name>::…` so that a
/// definition and a cross-crate use of it have the same name.
fn fix_crate(s: String) -> String {
    if !s.contains("crate::") {
        return s;
    }
    CRATE.with(|c| {
        let name = c.borrow();
        let mut out = String::with_capacity(s.len() + 16);
        let b = s.as_bytes();
        let mut i = 0;
        while i < b.len() {
            if s[i..].starts_with("crate::")
                && (i == 0 || !(b[i - 1].is_ascii_alphanumeric() || b[i - 1] == b'_'))
            {
                out.push_str(&name);
                out.push_str("::");
                i += 7;
            } else {
                let ch = s[i..].chars().next().unwrap();
                out.push(ch);
                i += ch.len_utf8();
            }
        }
        out
    })
}

fn path_of(tcx: TyCtxt<'_>, did: DefId) -> String {
    fix_crate(with_crate_prefix!(with_no_trimmed_paths!(tcx.def_path_str(did))))
}

fn ty_str<'tcx>(t: ty::Ty<'tcx>) -> String {
    fix_crate(with_crate_prefix!(with_no_trimmed_paths!(t.to_string())))
}

fn garg_str<'tcx>(a: ty::GenericArg<'tcx>) -> String {
    fix_crate(with_crate_prefix!(with_no_trimmed_paths!(a.to_string())))
}

struct Cx<'tcx> {
    tcx: TyCtxt<'tcx>,
    tr: &'tcx ty::TypeckResults<'tcx>,
    owner: LocalDefId,
}

impl<'tcx> Cx<'tcx> {
    fn resolve(&self, did: DefId, args: ty::GenericArgsRef<'tcx>) -> Option<DefId> {
        let env = ty::TypingEnv::post_analysis(self.tcx, self.owner.to_def_id());
        match ty::Instance::try_resolve(self.tcx, env, did, args) {
            Ok(Some(inst)) => Some(inst.def_id()),
            _ => None,
        }
    }

    fn base(&self, k: &str, e: &hir::Expr<'tcx>) -> Vec<(&'static str, J)> {
        let mut o = J::obj();
        o.push(("k", J::s(k)));
        if let Some(t) = self.tr.expr_ty_opt(e) {
            o.push(("ty", J::s(ty_str(t))));
        }
        let adj = self.tr.expr_adjustments(e);
        if !adj.is_empty() {
            if let Some(t) = self.tr.expr_ty_adjusted_opt(e) {
                o.push(("aty", J::s(ty_str(t))));
            }
        }
        o.push(("sp", J::s(loc(self.tcx, e.span))));
        if let Some(m) = macro_chain(e.span) {
            o.push(("mac", J::s(m)));
        }
        o
    }

    fn qpath_res(&self, qp: &hir::QPath<'tcx>, id: hir::HirId) -> Res {
        self.tr.qpath_res(qp, id)
    }

    fn res_obj(&self, res: Res, id: hir::HirId, o: &mut Vec<(&'static str, J)>) {
        match res {
            Res::Local(hid) => {
                o[0] = ("k", J::s("local"));
                let name = self.tcx.hir_name(hid).to_string();
                o.push(("name", J::s(name)));
                o.push(("id", J::Int(hid.local_id.as_u32() as i128)));
            }
            Res::Def(dk, did) => {
                o[0] = ("k", J::s("def"));
                o.push(("dk", J::s(format!("{:?}", dk))));
                o.push(("path", J::s(path_of(self.tcx, did))));
                if let Some(args) = self.tr.node_args_opt(id) {
                    if !args.is_empty() {
                        o.push((
                            "gargs",
                            J::Arr(
                                args.iter()
                                    .map(|a| J::s(garg_str(a)))
                                    .collect(),
                            ),
                        ));
                    }
                    if matches!(dk, DefKind::AssocFn | DefKind::Fn | DefKind::AssocConst { .. })
                    {
                        if let Some(r) = self.resolve(did, args) {
                            if r != did {
                                o.push(("rpath", J::s(path_of(self.tcx, r))));
                            }
                        }
                    }
                }
            }
            Res::SelfCtor(did) | Res::SelfTyAlias { alias_to: did, .. } => {
                o[0] = ("k", J::s("def"));
                o.push(("dk", J::s("SelfCtor")));
                o.push(("path", J::s(path_of(self.tcx, did))));
            }
            other => {
                o[0] = ("k", J::s("def"));
                o.push(("dk", J::s(format!("{:?}", other))));
            }
        }
    }

    fn lit(&self, l: &hir::Lit, o: &mut Vec<(&'static str, J)>) {
        use rustc_ast::LitKind::*;
        match &l.node {
            Str(s, _) => {
                o.push(("lk", J::s("str")));
                o.push(("v", J::s(s.as_str())));
            }
            ByteStr(b, _) | CStr(b, _) => {
                o.push(("lk", J::s("bytes")));
                o.push((
                    "v",
                    J::Arr(b.as_byte_str().iter().map(|x| J::Int(*x as i128)).collect()),
                ));
            }
            Byte(b) => {
                o.push(("lk", J::s("byte")));
                o.push(("v", J::Int(*b as i128)));
            }
            Char(c) => {
                o.push(("lk", J::s("char")));
                o.push(("v", J::s(c.to_string())));
            }
            Int(n, _) => {
                o.push(("lk", J::s("int")));
                o.push(("v", J::Int(n.get() as i128)));
            }
            Float(s, _) => {
                o.push(("lk", J::s("float")));
                o.push(("v", J::s(s.as_str())));
            }
            Bool(b) => {
                o.push(("lk", J::s("bool")));
                o.push(("v", J::Bool(*b)));
            }
            Err(_) => {
                o.push(("lk", J::s("err")));
            }
        }
    }

    fn opt_expr(&self, e: Option<&'tcx hir::Expr<'tcx>>) -> J {
        match e {
            Some(e) => self.expr(e),
            None => J::Null,
        }
    }

    fn exprs(&self, es: &'tcx [hir::Expr<'tcx>]) -> J {
        J::Arr(es.iter().map(|e| self.expr(e)).collect())
    }

    fn expr(&self, e: &'tcx hir::Expr<'tcx>) -> J {
        use hir::ExprKind as K;
        match &e.kind {
            K::DropTemps(inner) => return self.expr(inner),
            K::Use(inner, _) => return self.expr(inner),
            K::Type(inner, _) => return self.expr(inner),
            _ => {}
        }
        // desugarings recognised structurally
        if let Some(j) = self.try_for_loop(e) {
            return j;
        }
        if let Some(j) = self.try_while(e) {
            return j;
        }
        if let Some(j) = self.try_question(e) {
            return j;
        }
        let mut o;
        match &e.kind {
            K::Lit(l) => {
                o = self.base("lit", e);
                self.lit(l, &mut o);
            }
            K::Path(qp) => {
                o = self.base("path", e);
                let res = self.qpath_res(qp, e.hir_id);
                self.res_obj(res, e.hir_id, &mut o);
            }
            K::Call(f, args) => {
                o = self.base("call", e);
                // resolved callee if the callee is a path to a fn
                if let K::Path(qp) = &f.kind {
                    if let Res::Def(dk, did) = self.qpath_res(qp, f.hir_id) {
                        o.push(("callee", J::s(path_of(self.tcx, did))));
                        o.push(("cdk", J::s(format!("{:?}", dk))));
                        if let Some(a) = self.tr.node_args_opt(f.hir_id) {
                            if let Some(r) = self.resolve(did, a) {
                                if r != did {
                                    o.push(("rcallee", J::s(path_of(self.tcx, r))));
                                }
                            }
                            if !a.is_empty() {
                                o.push((
                                    "gargs",
                                    J::Arr(
                                        a.iter()
                                            .map(|x| J::s(garg_str(x)))
                                            .collect(),
                                    ),
                                ));
                            }
                        }
                    }
                }
                o.push(("f", self.expr(f)));
                o.push(("args", self.exprs(args)));
            }
            K::MethodCall(seg, recv, args, _) => {
                o = self.base("mcall", e);
                o.push(("name", J::s(seg.ident.name.as_str())));
                if let Some(did) = self.tr.type_dependent_def_id(e.hir_id) {
                    o.push(("callee", J::s(path_of(self.tcx, did))));
                    let a = self.tr.node_args(e.hir_id);
                    if let Some(r) = self.resolve(did, a) {
                        if r != did {
                            o.push(("rcallee", J::s(path_of(self.tcx, r))));
                        }
                    }
                    if !a.is_empty() {
                        o.push((
                            "gargs",
                            J::Arr(
                                a.iter()
                                    .map(|x| J::s(garg_str(x)))
                                    .collect(),
                            ),
                        ));
                    }
                }
                o.push(("recv", self.expr(recv)));
                o.push(("args", self.exprs(args)));
            }
            K::Tup(es) => {
                o = self.base("tup", e);
                o.push(("es", self.exprs(es)));
            }
            K::Array(es) => {
                o = self.base("array", e);
                o.push(("es", self.exprs(es)));
            }
            K::Repeat(v, _len) => {
                o = self.base("repeat", e);
                o.push(("e", self.expr(v)));
            }
            K::Binary(op, l, r) => {
                o = self.base("bin", e);
                o.push(("op", J::s(op.node.as_str())));
                if let Some(did) = self.tr.type_dependent_def_id(e.hir_id) {
                    o.push(("callee", J::s(path_of(self.tcx, did))));
                }
                o.push(("l", self.expr(l)));
                o.push(("r", self.expr(r)));
            }
            K::Unary(op, x) => {
                o = self.base("un", e);
                o.push(("op", J::s(op.as_str())));
                if let Some(did) = self.tr.type_dependent_def_id(e.hir_id) {
                    o.push(("callee", J::s(path_of(self.tcx, did))));
                }
                o.push(("e", self.expr(x)));
            }
            K::Cast(x, _) => {
                o = self.base("cast", e);
                o.push(("e", self.expr(x)));
            }
            K::Let(l) => {
                o = self.base("letexpr", e);
                o.push(("pat", self.pat(l.pat)));
                o.push(("init", self.expr(l.init)));
            }
            K::If(c, t, el) => {
                o = self.base("if", e);
                o.push(("cond", self.expr(c)));
                o.push(("then", self.expr(t)));
                o.push(("else", self.opt_expr(*el)));
            }
            K::Loop(b, label, src, _) => {
                o = self.base("loop", e);
                o.push(("src", J::s(format!("{:?}", src))));
                if let Some(l) = label {
                    o.push(("label", J::s(l.ident.name.as_str())));
                }
                o.push(("lid", J::Int(e.hir_id.local_id.as_u32() as i128)));
                o.push(("body", self.block(b)));
            }
            K::Match(s, arms, src) => {
                o = self.base("match", e);
                o.push(("src", J::s(format!("{:?}", src))));
                o.push(("e", self.expr(s)));
                o.push((
                    "arms",
                    J::Arr(
                        arms.iter()
                            .map(|a| {
                                let mut ao = J::obj();
                                ao.push(("pat", self.pat(a.pat)));
                                ao.push(("guard", self.opt_expr(a.guard)));
                                ao.push(("body", self.expr(a.body)));
                                J::Obj(ao)
                            })
                            .collect(),
                    ),
                ));
            }
            K::Closure(c) => {
                o = self.base("closure", e);
                let body = self.tcx.hir_body(c.body);
                o.push((
                    "params",
                    J::Arr(body.params.iter().map(|p| self.pat(p.pat)).collect()),
                ));
                o.push(("move", J::Bool(matches!(c.capture_clause, hir::CaptureBy::Value { .. }))));
                o.push(("def", J::s(path_of(self.tcx, c.def_id.to_def_id()))));
                o.push(("body", self.expr(body.value)));
            }
            K::Block(b, label) => {
                let mut j = self.block(b);
                if let (Some(l), J::Obj(ref mut bo)) = (label, &mut j) {
                    bo.push(("label", J::s(l.ident.name.as_str())));
                    bo.push(("lid", J::Int(e.hir_id.local_id.as_u32() as i128)));
                }
                return j;
            }
            K::Assign(l, r, _) => {
                o = self.base("assign", e);
                o.push(("l", self.expr(l)));
                o.push(("r", self.expr(r)));
            }
            K::AssignOp(op, l, r) => {
                o = self.base("assignop", e);
                o.push(("op", J::s(op.node.as_str())));
                if let Some(did) = self.tr.type_dependent_def_id(e.hir_id) {
                    o.push(("callee", J::s(path_of(self.tcx, did))));
                }
                o.push(("l", self.expr(l)));
                o.push(("r", self.expr(r)));
            }
            K::Field(x, ident) => {
                o = self.base("field", e);
                o.push(("name", J::s(ident.name.as_str())));
                if let Some(t) = self.tr.expr_ty_adjusted_opt(x) {
                    let mut t = t;
                    // peel references to name the owning ADT
                    while let ty::Ref(_, inner, _) = t.kind() {
                        t = *inner;
                    }
                    if let ty::Adt(def, _) = t.kind() {
                        o.push(("adt", J::s(path_of(self.tcx, def.did()))));
                    }
                }
                o.push(("e", self.expr(x)));
            }
            K::Index(b, i, _) => {
                o = self.base("index", e);
                if let Some(did) = self.tr.type_dependent_def_id(e.hir_id) {
                    o.push(("callee", J::s(path_of(self.tcx, did))));
                }
                o.push(("e", self.expr(b)));
                o.push(("i", self.expr(i)));
            }
            K::AddrOf(kind, m, x) => {
                o = self.base("addr", e);
                o.push(("mut", J::Bool(m.is_mut())));
                if matches!(kind, hir::BorrowKind::Raw) {
                    o.push(("raw", J::Bool(true)));
                }
                o.push(("e", self.expr(x)));
            }
            K::Break(dest, v) => {
                o = self.base("break", e);
                if let Ok(t) = dest.target_id {
                    o.push(("target", J::Int(t.local_id.as_u32() as i128)));
                }
                o.push(("e", self.opt_expr(*v)));
            }
            K::Continue(dest) => {
                o = self.base("continue", e);
                if let Ok(t) = dest.target_id {
                    o.push(("target", J::Int(t.local_id.as_u32() as i128)));
                }
            }
            K::Ret(v) => {
                o = self.base("ret", e);
                o.push(("e", self.opt_expr(*v)));
            }
            K::Struct(qp, fields, base) => {
                o = self.base("struct", e);
                let res = self.qpath_res(qp, e.hir_id);
                match res {
                    Res::Def(_, did) => o.push(("path", J::s(path_of(self.tcx, did)))),
                    Res::SelfTyAlias { alias_to, .. } => {
                        o.push(("path", J::s(path_of(self.tcx, alias_to))))
                    }
                    _ => {}
                }
                if let Some(t) = self.tr.expr_ty_opt(e) {
                    if let ty::Adt(def, _) = t.kind() {
                        o.push(("adt", J::s(path_of(self.tcx, def.did()))));
                    }
                }
                o.push((
                    "fields",
                    J::Arr(
                        fields
                            .iter()
                            .map(|f| {
                                let mut fo = J::obj();
                                fo.push(("name", J::s(f.ident.name.as_str())));
                                fo.push(("e", self.expr(f.expr)));
                                J::Obj(fo)
                            })
                            .collect(),
                    ),
                ));
                if let hir::StructTailExpr::Base(b) = base {
                    o.push(("base", self.expr(b)));
                }
            }
            K::ConstBlock(_) => {
                o = self.base("constblock", e);
            }
            other => {
                o = self.base("other", e);
                let d = format!("{:?}", other);
                let d: String = d.chars().take(40).collect();
                o.push(("what", J::s(d)));
            }
        }
        J::Obj(o)
    }

    fn block(&self, b: &'tcx hir::Block<'tcx>) -> J {
        let mut o = J::obj();
        o.push(("k", J::s("block")));
        if matches!(b.rules, hir::BlockCheckMode::UnsafeBlock(_)) {
            o.push(("unsafe", J::Bool(true)));
        }
        o.push(("sp", J::s(loc(self.tcx, b.span))));
        let mut stmts = Vec::new();
        for s in b.stmts {
            match &s.kind {
                hir::StmtKind::Let(l) => {
                    let mut lo = J::obj();
                    lo.push(("k", J::s("let")));
                    lo.push(("sp", J::s(loc(self.tcx, s.span))));
                    if let Some(m) = macro_chain(s.span) {
                        lo.push(("mac", J::s(m)));
                    }
                    lo.push(("pat", self.pat(l.pat)));
                    lo.push(("init", self.opt_expr(l.init)));
                    if let Some(els) = l.els {
                        lo.push(("els", self.block(els)));
                    }
                    stmts.push(J::Obj(lo));
                }
                hir::StmtKind::Expr(e) => {
                    stmts.push(self.expr(e));
                }
                hir::StmtKind::Semi(e) => {
                    let mut so = J::obj();
                    so.push(("k", J::s("semi")));
                    so.push(("e", self.expr(e)));
                    stmts.push(J::Obj(so));
                }
                hir::StmtKind::Item(_) => {}
            }
        }
        o.push(("stmts", J::Arr(stmts)));
        o.push(("expr", self.opt_expr(b.expr)));
        J::Obj(o)
    }

    fn pat(&self, p: &'tcx hir::Pat<'tcx>) -> J {
        use hir::PatKind as P;
        let mut o = J::obj();
        match &p.kind {
            P::Wild | P::Missing => {
                o.push(("k", J::s("pwild")));
            }
            P::Binding(mode, hid, ident, sub) => {
                o.push(("k", J::s("pbind")));
                o.push(("name", J::s(ident.name.as_str())));
                o.push(("id", J::Int(hid.local_id.as_u32() as i128)));
                o.push(("mode", J::s(format!("{:?}", mode))));
                if let Some(t) = self.tr.node_type_opt(*hid) {
                    o.push(("ty", J::s(ty_str(t))));
                }
                if let Some(s) = sub {
                    o.push(("sub", self.pat(s)));
                }
            }
            P::Tuple(ps, _) => {
                o.push(("k", J::s("ptuple")));
                o.push(("ps", J::Arr(ps.iter().map(|x| self.pat(x)).collect())));
            }
            P::TupleStruct(qp, ps, _) => {
                o.push(("k", J::s("ptstruct")));
                if let Res::Def(_, did) = self.qpath_res(qp, p.hir_id) {
                    o.push(("path", J::s(path_of(self.tcx, did))));
                }
                o.push(("ps", J::Arr(ps.iter().map(|x| self.pat(x)).collect())));
            }
            P::Struct(qp, fs, _) => {
                o.push(("k", J::s("pstruct")));
                if let Res::Def(_, did) = self.qpath_res(qp, p.hir_id) {
                    o.push(("path", J::s(path_of(self.tcx, did))));
                }
                o.push((
                    "fields",
                    J::Arr(
                        fs.iter()
                            .map(|f| {
                                let mut fo = J::obj();
                                fo.push(("name", J::s(f.ident.name.as_str())));
                                fo.push(("pat", self.pat(f.pat)));
                                J::Obj(fo)
                            })
                            .collect(),
                    ),
                ));
            }
            P::Or(ps) => {
                o.push(("k", J::s("por")));
                o.push(("ps", J::Arr(ps.iter().map(|x| self.pat(x)).collect())));
            }
            P::Ref(inner, ..) => {
                o.push(("k", J::s("pref")));
                o.push(("pat", self.pat(inner)));
            }
            P::Box(inner) | P::Deref(inner) => {
                o.push(("k", J::s("pref")));
                o.push(("pat", self.pat(inner)));
            }
            P::Expr(pe) => {
                self.pat_expr(pe, &mut o);
            }
            P::Range(lo, hi, end) => {
                o.push(("k", J::s("prange")));
                if let Some(lo) = lo {
                    let mut x = J::obj();
                    self.pat_expr(lo, &mut x);
                    o.push(("lo", J::Obj(x)));
                }
                if let Some(hi) = hi {
                    let mut x = J::obj();
                    self.pat_expr(hi, &mut x);
                    o.push(("hi", J::Obj(x)));
                }
                o.push(("incl", J::Bool(matches!(end, hir::RangeEnd::Included))));
            }
            other => {
                o.push(("k", J::s("pother")));
                let d = format!("{:?}", other);
                let d: String = d.chars().take(40).collect();
                o.push(("what", J::s(d)));
            }
        }
        o.push(("sp", J::s(loc(self.tcx, p.span))));
        J::Obj(o)
    }

    fn pat_expr(&self, pe: &'tcx hir::PatExpr<'tcx>, o: &mut Vec<(&'static str, J)>) {
        match &pe.kind {
            hir::PatExprKind::Lit { lit, negated } => {
                o.push(("k", J::s("plit")));
                self.lit(lit, o);
                if *negated {
                    o.push(("neg", J::Bool(true)));
                }
            }
            hir::PatExprKind::Path(qp) => {
                o.push(("k", J::s("ppath")));
                if let Res::Def(_, did) = self.qpath_res(qp, pe.hir_id) {
                    o.push(("path", J::s(path_of(self.tcx, did))));
                }
            }
        }
    }

    // `for pat in head { body }`
    fn try_for_loop(&self, e: &'tcx hir::Expr<'tcx>) -> Option<J> {
        use hir::ExprKind as K;
        let K::Match(head_call, arms, hir::MatchSource::ForLoopDesugar) = &e.kind else {
            return None;
        };
        if arms.len() != 1 {
            return None;
        }
        let K::Loop(blk, label, hir::LoopSource::ForLoop, _) = &arms[0].body.kind else {
            return None;
        };
        let head = match &head_call.kind {
            K::Call(_, args) if args.len() == 1 => &args[0],
            _ => return None,
        };
        // inner: match Iterator::next(&mut iter) { None => break, Some(pat) => body }
        let inner = if let Some(s) = blk.stmts.first() {
            match &s.kind {
                hir::StmtKind::Expr(x) | hir::StmtKind::Semi(x) => *x,
                _ => return None,
            }
        } else if let Some(x) = blk.expr {
            x
        } else {
            return None;
        };
        let K::Match(next_call, iarms, hir::MatchSource::ForLoopDesugar) = &inner.kind else {
            return None;
        };
        if iarms.len() != 2 {
            return None;
        }
        let some_arm = &iarms[1];
        let pat = match &some_arm.pat.kind {
            hir::PatKind::TupleStruct(_, ps, _) if ps.len() == 1 => &ps[0],
            hir::PatKind::Struct(_, fs, _) if fs.len() == 1 => fs[0].pat,
            _ => return None,
        };
        let mut o = self.base("for", e);
        if let Some(l) = label {
            o.push(("label", J::s(l.ident.name.as_str())));
        }
        o.push(("lid", J::Int(arms[0].body.hir_id.local_id.as_u32() as i128)));
        // which Iterator::next impl is driven, and the iterator's type
        if let K::Call(f, _) = &next_call.kind {
            if let K::Path(qp) = &f.kind {
                if let Res::Def(_, did) = self.qpath_res(qp, f.hir_id) {
                    if let Some(a) = self.tr.node_args_opt(f.hir_id) {
                        if let Some(r) = self.resolve(did, a) {
                            o.push(("next", J::s(path_of(self.tcx, r))));
                        }
                    }
                }
            }
        }
        if let K::Call(f, _) = &head_call.kind {
            if let K::Path(qp) = &f.kind {
                if let Res::Def(_, did) = self.qpath_res(qp, f.hir_id) {
                    if let Some(a) = self.tr.node_args_opt(f.hir_id) {
                        if let Some(r) = self.resolve(did, a) {
                            o.push(("into_iter", J::s(path_of(self.tcx, r))));
                        }
                    }
                }
            }
        }
        if let Some(t) = self.tr.expr_ty_opt(head_call) {
            o.push(("iter_ty", J::s(ty_str(t))));
        }
        o.push(("pat", self.pat(pat)));
        o.push(("iter", self.expr(head)));
        o.push(("body", self.expr(some_arm.body)));
        Some(J::Obj(o))
    }

    // `while cond { body }`
    fn try_while(&self, e: &'tcx hir::Expr<'tcx>) -> Option<J> {
        use hir::ExprKind as K;
        let K::Loop(blk, label, hir::LoopSource::While, _) = &e.kind else {
            return None;
        };
        let x = blk.expr?;
        let K::If(c, t, Some(_)) = &x.kind else {
            return None;
        };
        let mut o = self.base("while", e);
        if let Some(l) = label {
            o.push(("label", J::s(l.ident.name.as_str())));
        }
        o.push(("lid", J::Int(e.hir_id.local_id.as_u32() as i128)));
        o.push(("cond", self.expr(c)));
        o.push(("body", self.expr(t)));
        Some(J::Obj(o))
    }

    // `expr?`
    fn try_question(&self, e: &'tcx hir::Expr<'tcx>) -> Option<J> {
        use hir::ExprKind as K;
        let K::Match(scrut, _, hir::MatchSource::TryDesugar(_)) = &e.kind else {
            return None;
        };
        let inner = match &scrut.kind {
            K::Call(_, args) if args.len() == 1 => &args[0],
            _ => return None,
        };
        let mut o = self.base("try", e);
        o.push(("e", self.expr(inner)));
        Some(J::Obj(o))
    }
}

// ---------------------------------------------------------------------------

fn extract<'tcx>(tcx: TyCtxt<'tcx>) -> J {
    let mut top = J::obj();
    let krate = tcx.crate_name(rustc_hir::def_id::LOCAL_CRATE).to_string();
    CRATE.with(|c| *c.borrow_mut() = krate.clone());
    top.push(("crate", J::s(krate)));
    top.push(("pkg", J::s(std::env::var("CARGO_PKG_NAME").unwrap_or_default())));
    top.push((
        "manifest_dir",
        J::s(std::env::var("CARGO_MANIFEST_DIR").unwrap_or_default()),
    ));
    top.push((
        "crate_types",
        J::Arr(
            tcx.crate_types()
                .iter()
                .map(|t| J::s(format!("{:?}", t)))
                .collect(),
        ),
    ));
    top.push(("debug_assertions", J::Bool(tcx.sess.opts.debug_assertions)));
    top.push(("overflow_checks", J::Bool(tcx.sess.overflow_checks())));

    // ---- bodies ----
    let mut fns = Vec::new();
    for owner in tcx.hir_body_owners() {
        let dk = tcx.def_kind(owner);
        if matches!(dk, DefKind::Closure | DefKind::InlineConst | DefKind::AnonConst) {
            continue; // closures are inlined into their parent's tree
        }
        let Some(body) = tcx.hir_maybe_body_owned_by(owner) else {
            continue;
        };
        let tr = tcx.typeck(owner);
        if tr.tainted_by_errors.is_some() {
            continue;
        }
        let cx = Cx { tcx, tr, owner };
        let mut o = J::obj();
        let did = owner.to_def_id();
        o.push(("path", J::s(path_of(tcx, did))));
        o.push(("dk", J::s(format!("{:?}", dk))));
        o.push(("name", J::s(tcx.item_name(did).to_string())));
        o.push((
            "module",
            J::s(path_of(tcx, tcx.parent_module_from_def_id(owner).to_def_id())),
        ));
        let sp = tcx.def_span(did);
        o.push(("sp", J::s(loc(tcx, sp))));
        if let Some(m) = macro_chain(sp) {
            o.push(("mac", J::s(m)));
        }
        if matches!(dk, DefKind::Fn | DefKind::AssocFn) {
            o.push(("vis", J::s(format!("{:?}", tcx.visibility(did)))));
            let sig = tcx.fn_sig(did).instantiate_identity().skip_normalization().skip_binder();
            o.push(("unsafe", J::Bool(!sig.safety().is_safe())));
            // generic parameter names (parent impl's first, then the function's own), in substitution order
            let mut gnames: Vec<J> = Vec::new();
            let gens = tcx.generics_of(did);
            if let Some(parent) = gens.parent {
                for p in tcx.generics_of(parent).own_params.iter() {
                    gnames.push(J::s(p.name.to_string()));
                }
            }
            for p in gens.own_params.iter() {
                gnames.push(J::s(p.name.to_string()));
            }
            o.push(("generics", J::Arr(gnames)));
            o.push(("ret", J::s(ty_str(sig.output()))));
            o.push((
                "param_tys",
                J::Arr(sig.inputs().iter().map(|t| J::s(ty_str(*t))).collect()),
            ));
        }
        // enclosing impl / trait
        if matches!(dk, DefKind::AssocFn | DefKind::AssocConst { .. }) {
            let parent = tcx.parent(did);
            o.push(("parent", J::s(path_of(tcx, parent))));
            if matches!(tcx.def_kind(parent), DefKind::Impl { .. }) {
                let self_ty = tcx.type_of(parent).instantiate_identity().skip_normalization();
                o.push(("self_ty", J::s(ty_str(self_ty))));
                if let Some(tref) = tcx.impl_opt_trait_ref(parent) {
                    let tref = tref.instantiate_identity().skip_normalization();
                    o.push(("trait", J::s(path_of(tcx, tref.def_id))));
                }
            }
        }
        o.push((
            "params",
            J::Arr(body.params.iter().map(|p| cx.pat(p.pat)).collect()),
        ));
        o.push(("body", cx.expr(body.value)));
        fns.push(J::Obj(o));
    }
    top.push(("fns", J::Arr(fns)));

    // ---- items: adts, impls, consts ----
    let mut adts = Vec::new();
    let mut impls = Vec::new();
    let mut consts = Vec::new();
    for id in tcx.hir_free_items() {
        let did = id.owner_id.to_def_id();
        let dk = tcx.def_kind(did);
        match dk {
            DefKind::Struct | DefKind::Enum | DefKind::Union => {
                let adt = tcx.adt_def(did);
                let mut o = J::obj();
                o.push(("path", J::s(path_of(tcx, did))));
                o.push(("dk", J::s(format!("{:?}", dk))));
                o.push(("vis", J::s(format!("{:?}", tcx.visibility(did)))));
                o.push(("sp", J::s(loc(tcx, tcx.def_span(did)))));
                if let Some(m) = macro_chain(tcx.def_span(did)) {
                    o.push(("mac", J::s(m)));
                }
                let mut vs = Vec::new();
                for v in adt.variants().iter() {
                    let mut vo = J::obj();
                    vo.push(("name", J::s(v.name.to_string())));
                    let mut fs = Vec::new();
                    for f in v.fields.iter() {
                        let mut fo = J::obj();
                        fo.push(("name", J::s(f.name.to_string())));
                        fo.push(("vis", J::s(format!("{:?}", f.vis))));
                        fo.push((
                            "ty",
                            J::s(ty_str(
                                tcx.type_of(f.did).instantiate_identity().skip_normalization(),
                            )),
                        ));
                        fs.push(J::Obj(fo));
                    }
                    vo.push(("fields", J::Arr(fs)));
                    vs.push(J::Obj(vo));
                }
                o.push(("variants", J::Arr(vs)));
                adts.push(J::Obj(o));
            }
            DefKind::Impl { .. } => {
                let mut o = J::obj();
                o.push(("path", J::s(path_of(tcx, did))));
                o.push(("sp", J::s(loc(tcx, tcx.def_span(did)))));
                if let Some(m) = macro_chain(tcx.def_span(did)) {
                    o.push(("mac", J::s(m)));
                }
                let self_ty = tcx.type_of(did).instantiate_identity().skip_normalization();
                o.push(("self_ty", J::s(ty_str(self_ty))));
                if let ty::Adt(def, _) = self_ty.kind() {
                    o.push(("self_adt", J::s(path_of(tcx, def.did()))));
                }
                if let Some(tref) = tcx.impl_opt_trait_ref(did) {
                    let tref = tref.instantiate_identity().skip_normalization();
                    o.push(("trait", J::s(path_of(tcx, tref.def_id))));
                    o.push(("trait_ref", J::s(fix_crate(with_crate_prefix!(with_no_trimmed_paths!(tref.to_string()))))));
                }
                let items: Vec<J> = tcx
                    .associated_item_def_ids(did)
                    .iter()
                    .map(|d| J::s(tcx.item_name(*d).to_string()))
                    .collect();
                o.push(("items", J::Arr(items)));
                impls.push(J::Obj(o));
            }
            DefKind::Const { .. } | DefKind::Static { .. } => {
                if let Some(j) = const_fact(tcx, did, dk) {
                    consts.push(j);
                }
            }
            _ => {}
        }
    }
    // associated consts
    for id in tcx.hir_crate_items(()).impl_items() {
        let did = id.owner_id.to_def_id();
        let dk = tcx.def_kind(did);
        if matches!(dk, DefKind::AssocConst { .. }) {
            if let Some(j) = const_fact(tcx, did, dk) {
                consts.push(j);
            }
        }
    }
    // ---- imports: `use` items (private ones too) make `module::name` another spelling of the target ----
    let mut uses = Vec::new();
    for id in tcx.hir_free_items() {
        let item = tcx.hir_item(id);
        if let hir::ItemKind::Use(path, kind) = item.kind {
            let module = path_of(
                tcx,
                tcx.parent_module_from_def_id(item.owner_id.def_id).to_def_id(),
            );
            let mut targets: Vec<(String, String)> = Vec::new();
            for r in [path.res.type_ns, path.res.value_ns, path.res.macro_ns] {
                if let Some(Res::Def(dk, did)) = r {
                    targets.push((format!("{:?}", dk), path_of(tcx, did)));
                }
            }
            match kind {
                hir::UseKind::Single(ident) => {
                    for (dk, t) in targets {
                        let mut o = J::obj();
                        o.push(("module", J::s(module.clone())));
                        o.push(("name", J::s(ident.name.to_string())));
                        o.push(("target", J::s(t)));
                        o.push(("dk", J::s(dk)));
                        o.push(("vis", J::s(format!("{:?}", tcx.visibility(item.owner_id.to_def_id())))));
                        uses.push(J::Obj(o));
                    }
                }
                hir::UseKind::Glob => {
                    for (dk, t) in targets {
                        let mut o = J::obj();
                        o.push(("module", J::s(module.clone())));
                        o.push(("glob", J::Bool(true)));
                        o.push(("target", J::s(t)));
                        o.push(("dk", J::s(dk)));
                        uses.push(J::Obj(o));
                    }
                }
                _ => {}
            }
        }
    }
    top.push(("uses", J::Arr(uses)));
    top.push(("adts", J::Arr(adts)));
    top.push(("impls", J::Arr(impls)));
    top.push(("consts", J::Arr(consts)));

    // ---- MIR: calls and asserts ----
    let mut mir_fns = Vec::new();
    for ldid in tcx.mir_keys(()) {
        let did = ldid.to_def_id();
        let dk = tcx.def_kind(did);
        if !matches!(dk, DefKind::Fn | DefKind::AssocFn | DefKind::Closure) {
            continue;
        }
        let body: &mir::Body<'tcx> = tcx.optimized_mir(did);
        let env = ty::TypingEnv::post_analysis(tcx, did);
        let mut calls = Vec::new();
        let mut asserts = Vec::new();
        for bb in body.basic_blocks.iter() {
            let Some(term) = &bb.terminator else { continue };
            match &term.kind {
                mir::TerminatorKind::Call { func, fn_span, .. } => {
                    if let Some((cdid, cargs)) = func.const_fn_def() {
                        let mut co = J::obj();
                        co.push(("callee", J::s(path_of(tcx, cdid))));
                        if let Ok(Some(inst)) = ty::Instance::try_resolve(tcx, env, cdid, cargs) {
                            if inst.def_id() != cdid {
                                co.push(("rcallee", J::s(path_of(tcx, inst.def_id()))));
                            }
                        }
                        if !cargs.is_empty() {
                            co.push((
                                "gargs",
                                J::Arr(
                                    cargs
                                        .iter()
                                        .map(|x| J::s(garg_str(x)))
                                        .collect(),
                                ),
                            ));
                        }
                        co.push(("sp", J::s(loc(tcx, *fn_span))));
                        if let Some(m) = macro_chain(*fn_span) {
                            co.push(("mac", J::s(m)));
                        }
                        calls.push(J::Obj(co));
                    } else {
                        let mut co = J::obj();
                        co.push(("callee", J::s("<indirect>")));
                        co.push(("sp", J::s(loc(tcx, *fn_span))));
                        calls.push(J::Obj(co));
                    }
                }
                mir::TerminatorKind::Assert { msg, .. } => {
                    let kind = match &**msg {
                        mir::AssertKind::BoundsCheck { .. } => "bounds".to_string(),
                        mir::AssertKind::Overflow(op, ..) => format!("overflow:{:?}", op),
                        mir::AssertKind::OverflowNeg(_) => "overflow:Neg".to_string(),
                        mir::AssertKind::DivisionByZero(_) => "div0".to_string(),
                        mir::AssertKind::RemainderByZero(_) => "rem0".to_string(),
                        _ => "other".to_string(),
                    };
                    let mut ao = J::obj();
                    ao.push(("kind", J::s(kind)));
                    ao.push(("sp", J::s(loc(tcx, term.source_info.span))));
                    if let Some(m) = macro_chain(term.source_info.span) {
                        ao.push(("mac", J::s(m)));
                    }
                    asserts.push(J::Obj(ao));
                }
                _ => {}
            }
        }
        let mut o = J::obj();
        o.push(("path", J::s(path_of(tcx, did))));
        o.push(("dk", J::s(format!("{:?}", dk))));
        // closures: name the enclosing non-closure fn
        let root = tcx.typeck_root_def_id(did);
        if root != did {
            o.push(("root", J::s(path_of(tcx, root))));
        }
        o.push(("calls", J::Arr(calls)));
        o.push(("asserts", J::Arr(asserts)));
        mir_fns.push(J::Obj(o));
    }
    top.push(("mir", J::Arr(mir_fns)));
    J::Obj(top)
}

fn const_fact<'tcx>(tcx: TyCtxt<'tcx>, did: DefId, dk: DefKind) -> Option<J> {
    let mut o = J::obj();
    o.push(("path", J::s(path_of(tcx, did))));
    o.push(("dk", J::s(format!("{:?}", dk))));
    o.push(("sp", J::s(loc(tcx, tcx.def_span(did)))));
    if let Some(m) = macro_chain(tcx.def_span(did)) {
        o.push(("mac", J::s(m)));
    }
    let t = tcx.type_of(did).instantiate_identity().skip_normalization();
    o.push(("ty", J::s(ty_str(t))));
    if matches!(dk, DefKind::Static { .. }) {
        return Some(J::Obj(o));
    }
    if tcx.generics_of(did).count() > 0 || tcx.generics_of(did).parent_count > 0 {
        return Some(J::Obj(o));
    }
    match tcx.const_eval_poly(did) {
        Ok(mir::ConstValue::Scalar(mir::interpret::Scalar::Int(i))) => {
            let bits = i.to_bits_unchecked();
            o.push(("scalar", J::Int(bits as i128)));
            o.push(("size", J::Int(i.size().bytes() as i128)));
        }
        Ok(mir::ConstValue::Indirect { alloc_id, offset }) => {
            if let ty::Array(elem, _) = t.kind() {
                if matches!(elem.kind(), ty::Char) {
                    let alloc = tcx.global_alloc(alloc_id).unwrap_memory();
                    let inner = alloc.inner();
                    let start = offset.bytes() as usize;
                    let bytes =
                        inner.inspect_with_uninit_and_ptr_outside_interpreter(start..inner.len());
                    let chars: Vec<J> = bytes
                        .chunks(4)
                        .filter(|c| c.len() == 4)
                        .map(|c| {
                            let v = u32::from_le_bytes([c[0], c[1], c[2], c[3]]);
                            J::s(char::from_u32(v).map(|x| x.to_string()).unwrap_or_default())
                        })
                        .collect();
                    o.push(("chars", J::Arr(chars)));
                }
                if matches!(elem.kind(), ty::Uint(ty::UintTy::U8)) {
                    let alloc = tcx.global_alloc(alloc_id).unwrap_memory();
                    let inner = alloc.inner();
                    let start = offset.bytes() as usize;
                    let bytes =
                        inner.inspect_with_uninit_and_ptr_outside_interpreter(start..inner.len());
                    o.push((
                        "bytes",
                        J::Arr(bytes.iter().map(|b| J::Int(*b as i128)).collect()),
                    ));
                }
            }
        }
        _ => {}
    }
    Some(J::Obj(o))
}
