"""Control-flow normal forms (applied by facts.normalise_tree, bottom-up).

Each rewrite keeps the order of effects and the values computed; it only picks ONE spelling for constructs that Rust
lets you spell several ways, so that the rules (written against the spelling of the pinned tree) see through the
other spellings:

  * `while let P = e { B }`                         ->  `loop { if let P = e { B } else { break } }`
  * `let mut it = E; loop { if let Some(P) = it.next() { B } else { break } }` with `it` used nowhere else
                                                     ->  `for P in E { B }`   (this IS the desugaring of `for`)
  * `match (a, b) { (true, _) => X, (false, true) => Y, (false, false) => Z }`, `match c { true => X, false => Y }`
    with side-effect-free components                 ->  the decision tree `if a { X } else if b { Y } else { Z }`
  * `match e { K(p) => A, N if g => B, N => C }` (arms with guards over a two-constructor enum)
                                                     ->  `if let K(p) = e { A } else if g { B } else { C }`
  * Option / Result combinators applied to a closure literal or a plain value
        `o.map(|x| B)`            -> `if let Some(x) = o { Some(B) } else { None }`
        `o.and_then(|x| B)`       -> `if let Some(x) = o { B } else { None }`
        `o.ok_or(e)` / `o.ok_or_else(|| e)` -> `if let Some(v) = o { Ok(v) } else { Err(e) }`
        `o.unwrap_or_else(|| d)`  -> `if let Some(v) = o { v } else { d }`
        `o.map_or(d, |x| B)` / `map_or_else(|| d, |x| B)` -> `if let Some(x) = o { B } else { d }`
    (the closure runs exactly where the branch runs; `unwrap_or(d)` with an eagerly evaluated `d` is left alone and
    handled at term level instead)
  * `(if c { A } else { B })?`  -> `if c { A? } else { B? }`;  `Ok(v)?` -> `v`;  `Err(e)?` -> `return Err(e)`
"""
import copy

_FRESH = [900000000]


def fresh_id():
    _FRESH[0] += 1
    return _FRESH[0]


def _is_pure(e):
    """no call (except a few pure std methods), no assignment, no control transfer"""
    if e is None:
        return True
    if isinstance(e, list):
        return all(_is_pure(x) for x in e)
    if not isinstance(e, dict):
        return True
    k = e.get("k")
    if k in ("assign", "assignop", "ret", "break", "continue", "loop", "for", "while", "closure", "try", "let"):
        return False
    if k in ("call", "mcall"):
        c = (e.get("callee") or "")
        last = c.split("::")[-1]
        if last not in ("len", "is_empty", "ends_with", "starts_with", "eq", "ne", "lt", "le", "gt", "ge", "as_str",
                        "as_ref", "deref", "is_some", "is_none", "is_ok", "is_err", "contains", "as_bytes", "first",
                        "last", "clone", "min", "max", "abs", "floor", "to_owned"):
            return False
    for key, v in e.items():
        if key in ("pat", "params"):
            continue
        if isinstance(v, (dict, list)) and not _is_pure(v):
            return False
    return True


def _blk(expr, sp=None, ty=None, stmts=None):
    return {"k": "block", "stmts": stmts or [], "expr": expr, "sp": sp, "ty": ty}


def _unblock(e):
    while isinstance(e, dict) and e.get("k") == "block" and not e.get("stmts") and e.get("expr") is not None \
            and not e.get("label"):
        e = e["expr"]
    return e


# ------------------------------------------------------------------ while let -> loop

def while_let(n):
    c = n.get("cond")
    if not (isinstance(c, dict) and c.get("k") == "letexpr"):
        return None
    lid = n.get("lid")
    brk = {"k": "break", "target": lid, "ty": "!", "sp": n.get("sp")}
    body = {"k": "if", "ty": "()", "sp": n.get("sp"), "cond": c, "then": n["body"],
            "else": _blk(None, n.get("sp"), "()", [{"k": "semi", "e": brk, "sp": n.get("sp")}])}
    return {"k": "loop", "ty": "()", "sp": n.get("sp"), "lid": lid, "label": n.get("label"), "from_while_let": True,
            "body": _blk(body, n.get("sp"), "()")}


# ------------------------------------------------------------------ loop over it.next() -> for

def _uses_of(tree, lid):
    out = []
    stack = [tree]
    while stack:
        x = stack.pop()
        if isinstance(x, dict):
            if x.get("k") == "local" and x.get("id") == lid:
                out.append(x)
            stack.extend(v for v in x.values() if isinstance(v, (dict, list)))
        elif isinstance(x, list):
            stack.extend(x)
    return out


def _strip_ref(e):
    while isinstance(e, dict) and (e.get("k") == "addr" or (e.get("k") == "un" and e.get("op") == "*")):
        e = e["e"]
    return e


def _next_loop(st, lid):
    """st is `loop L { if let Some(P) = <local lid>.next() { B } else { break L } }` -> (loop, P, B) else None"""
    x = st["e"] if st.get("k") == "semi" else st
    if not isinstance(x, dict) or x.get("k") != "loop":
        return None
    body = _unblock(x.get("body"))
    if not isinstance(body, dict) or body.get("k") != "if":
        return None
    c = body.get("cond")
    if not (isinstance(c, dict) and c.get("k") == "letexpr"):
        return None
    pat = c.get("pat", {})
    if pat.get("k") != "ptstruct" or not pat.get("path", "").endswith("Some") or len(pat.get("ps", [])) != 1:
        return None
    init = c.get("init")
    if not (isinstance(init, dict) and init.get("k") == "mcall" and (init.get("callee") or "").endswith("Iterator::next")
            and not init.get("args")):
        return None
    r = _strip_ref(init.get("recv"))
    if not (isinstance(r, dict) and r.get("k") == "local" and r.get("id") == lid):
        return None
    els = body.get("else")
    e2 = _unblock(els) if els is not None else None
    is_break = False
    if isinstance(els, dict):
        cand = els
        if cand.get("k") == "block" and len(cand.get("stmts", [])) == 1 and cand.get("expr") is None:
            cand = cand["stmts"][0]
            cand = cand["e"] if cand.get("k") == "semi" else cand
        else:
            cand = e2
        is_break = isinstance(cand, dict) and cand.get("k") == "break" and cand.get("e") is None \
            and cand.get("target") in (None, x.get("lid"))
    if not is_break:
        return None
    return x, pat["ps"][0], body["then"]


def for_from_next_loops(blk):
    stmts = blk.get("stmts", [])
    i = 0
    while i < len(stmts):
        st = stmts[i]
        if st.get("k") == "let" and st.get("pat", {}).get("k") == "pbind" and st.get("init") is not None \
                and st.get("els") is None:
            lid = st["pat"]["id"]
            rest = stmts[i + 1:] + ([blk["expr"]] if blk.get("expr") is not None else [])
            uses = _uses_of(rest, lid)
            if len(uses) == 1:
                for j, later in enumerate(rest):
                    hit = _next_loop(later, lid)
                    if hit is None:
                        continue
                    loop, pat, body = hit
                    if _uses_of(body, lid):
                        break
                    node = {"k": "for", "ty": "()", "sp": loop.get("sp"), "mac": "desugar:ForLoop", "lid": loop.get("lid"),
                            "iter_ty": st["pat"].get("ty") or st["init"].get("ty", ""), "pat": pat, "iter": st["init"],
                            "body": body, "from_next_loop": True}
                    if later.get("k") == "semi":
                        later["e"] = node
                    elif j + i + 1 < len(stmts):
                        stmts[i + 1 + j] = node
                    else:
                        blk["expr"] = node
                    del stmts[i]
                    i -= 1
                    break
        i += 1
    blk["stmts"] = stmts


# ------------------------------------------------------------------ match on booleans -> if chain

def _bool_pat(p):
    """True / False / None (wild) / 'no'"""
    k = p.get("k")
    if k == "pwild":
        return None
    if k == "pbind" and not p.get("sub"):
        return "no"
    if k == "plit" and p.get("lk") == "bool":
        return bool(p.get("v"))
    return "no"


def match_bools(n):
    e = n.get("e")
    arms = n.get("arms", [])
    if not isinstance(e, dict) or not arms or any(a.get("guard") is not None for a in arms):
        return None
    if e.get("k") == "tup":
        comps = e.get("es", [])
        rows = []
        arms2 = []
        for a in arms:
            alts = a["pat"].get("ps", []) if a["pat"].get("k") == "por" else [a["pat"]]
            for p in alts:
                if p.get("k") == "pwild":
                    rows.append([None] * len(comps))
                    arms2.append(a)
                    continue
                if p.get("k") != "ptuple" or len(p.get("ps", [])) != len(comps):
                    return None
                row = [_bool_pat(x) for x in p["ps"]]
                if "no" in row:
                    return None
                rows.append(row)
                arms2.append(a)
        arms = arms2
    elif e.get("ty") == "bool":
        comps = [e]
        rows = []
        for a in arms:
            b = _bool_pat(a["pat"])
            if b == "no":
                return None
            rows.append([b])
    else:
        return None
    if not all(c.get("ty") == "bool" and _is_pure(c) for c in comps):
        return None
    budget = [64]

    def tree(known):
        budget[0] -= 1
        if budget[0] < 0:
            raise OverflowError()
        for row, a in zip(rows, arms):
            if any(v is not None and j in known and known[j] != v for j, v in enumerate(row)):
                continue       # contradicted by what is known
            unknown = [j for j, v in enumerate(row) if v is not None and j not in known]
            if not unknown:
                return copy.deepcopy(a["body"])
            j = unknown[0]
            kt, kf = dict(known), dict(known)
            kt[j], kf[j] = True, False
            t = tree(kt)
            f = tree(kf)
            return {"k": "if", "ty": n.get("ty"), "sp": a["pat"].get("sp") or n.get("sp"), "cond": copy.deepcopy(comps[j]),
                    "then": _blk(t, n.get("sp"), n.get("ty")) if t.get("k") != "block" else t,
                    "else": _blk(f, n.get("sp"), n.get("ty")) if f.get("k") != "block" else f, "from_bool_match": True}
        return _blk(None, n.get("sp"), "()")     # unreachable (exhaustive match)
    try:
        return tree({})
    except OverflowError:
        return None


# ------------------------------------------------------------------ guarded arms over a two-constructor enum

def _ctor_name(p):
    if p.get("k") in ("ptstruct", "ppath", "pstruct"):
        return p.get("path", "").split("::")[-1]
    return None


def merge_guarded_arms(n):
    """`K(a) if g1 => b1, K(b) if g2 => b2, K(_) => b3`  ==  `K(a) => if g1 {b1} else if g2[a/b] {b2[a/b]} else {b3}`:
    consecutive arms of one constructor with a single plain binder, all but the last guarded, become one arm (guards
    are tried in the same order, so nothing about evaluation changes)."""
    from .inline import _replace_locals
    arms = n.get("arms", [])
    if not any(a.get("guard") is not None for a in arms):
        return None

    def simple(p):
        if p.get("k") != "ptstruct" or len(p.get("ps", [])) != 1:
            return None
        q = p["ps"][0]
        if q.get("k") == "pwild" or (q.get("k") == "pbind" and q.get("sub") is None):
            return q
        return None
    out, i, changed = [], 0, False
    while i < len(arms):
        a = arms[i]
        nm = _ctor_name(a["pat"])
        if a.get("guard") is None or nm is None or simple(a["pat"]) is None:
            out.append(a)
            i += 1
            continue
        j = i
        while j < len(arms) and arms[j].get("guard") is not None and _ctor_name(arms[j]["pat"]) == nm \
                and simple(arms[j]["pat"]) is not None:
            j += 1
        if j >= len(arms) or arms[j].get("guard") is not None or _ctor_name(arms[j]["pat"]) != nm \
                or simple(arms[j]["pat"]) is None:
            return None
        group = arms[i:j + 1]
        binders = [simple(g["pat"]) for g in group]
        lead = next((b for b in binders if b.get("k") == "pbind"), None)
        if lead is None:
            return None
        if any(b.get("k") == "pbind" and b.get("mode") != lead.get("mode") for b in binders):
            return None
        loc = {"k": "local", "id": lead["id"], "name": lead.get("name"), "ty": lead.get("ty"), "sp": lead.get("sp")}
        bodies = []
        for g, b in zip(group, binders):
            env = {b["id"]: loc} if b.get("k") == "pbind" and b["id"] != lead["id"] else {}
            gd = _replace_locals(copy.deepcopy(g.get("guard")), env) if g.get("guard") is not None else None
            bd = _replace_locals(copy.deepcopy(g["body"]), env)
            bodies.append((gd, bd))
        chain = bodies[-1][1]
        for gd, bd in reversed(bodies[:-1]):
            chain = {"k": "if", "ty": n.get("ty"), "sp": bd.get("sp") or n.get("sp"), "cond": gd,
                     "then": bd if bd.get("k") == "block" else _blk(bd, n.get("sp"), n.get("ty")),
                     "else": chain if chain.get("k") == "block" else _blk(chain, n.get("sp"), n.get("ty")),
                     "from_guard": True}
        pat = dict(group[0]["pat"], ps=[lead])
        out.append(dict(group[0], pat=pat, guard=None, body=chain))
        changed = True
        i = j + 1
    if not changed:
        return None
    return dict(n, arms=out, merged_guards=True)


def match_guards(n):
    arms = n.get("arms", [])
    if not any(a.get("guard") is not None for a in arms) or len(arms) < 2:
        return None
    first = arms[0]
    k0 = _ctor_name(first["pat"])
    if k0 is None or first.get("guard") is not None:
        return None
    rest = arms[1:]
    # all remaining arms: one other constructor without bindings (or wild), guards pure
    names = set()
    for a in rest:
        p = a["pat"]
        if p.get("k") == "pwild":
            continue
        nm = _ctor_name(p)
        if nm is None or nm == k0 or p.get("ps") or p.get("fields"):
            return None
        names.add(nm)
        if a.get("guard") is not None and not _is_pure(a["guard"]):
            return None
    if len(names) > 1 or rest[-1].get("guard") is not None:
        return None
    chain = rest[-1]["body"]
    for a in reversed(rest[:-1]):
        if a.get("guard") is None:
            chain = a["body"]
            continue
        chain = {"k": "if", "ty": n.get("ty"), "sp": a["pat"].get("sp") or n.get("sp"), "cond": a["guard"],
                 "then": a["body"] if a["body"].get("k") == "block" else _blk(a["body"], n.get("sp"), n.get("ty")),
                 "else": chain if chain.get("k") == "block" else _blk(chain, n.get("sp"), n.get("ty")),
                 "from_guard": True}
    return {"k": "if", "ty": n.get("ty"), "sp": n.get("sp"), "from_match": True,
            "cond": {"k": "letexpr", "ty": "bool", "sp": first["pat"].get("sp", n.get("sp")), "pat": first["pat"], "init": n["e"]},
            "then": first["body"], "else": chain if chain.get("k") == "block" else _blk(chain, n.get("sp"), n.get("ty"))}


# ------------------------------------------------------------------ Option / Result combinators

def _clo(e, nparams):
    e = _unblock(e)
    if isinstance(e, dict) and e.get("k") == "closure" and len(e.get("params", [])) == nparams:
        return e
    return None


def _some(v, ty, sp):
    return {"k": "call", "ty": ty, "sp": sp, "callee": "std::prelude::v1::Some", "cdk": "Ctor(Variant, Fn)",
            "f": {"k": "def", "dk": "Ctor(Variant, Fn)", "path": "std::prelude::v1::Some", "sp": sp}, "args": [v]}


def _ctor_call(name, v, ty, sp):
    return {"k": "call", "ty": ty, "sp": sp, "callee": "std::prelude::v1::" + name, "cdk": "Ctor(Variant, Fn)",
            "f": {"k": "def", "dk": "Ctor(Variant, Fn)", "path": "std::prelude::v1::" + name, "sp": sp}, "args": [v]}


def _none(ty, sp):
    return {"k": "def", "ty": ty, "sp": sp, "dk": "Ctor(Variant, Const)", "path": "std::prelude::v1::None"}


def _bind_param(p, ty):
    if p.get("k") == "pbind" or p.get("k") in ("ptuple", "pwild", "ptstruct", "pstruct", "pref"):
        return p
    return None


def combinator(n):
    c = n.get("callee") or ""
    if not (c.startswith("std::option::Option::") or c.startswith("core::option::Option::")
            or c.startswith("std::result::Result::") or c.startswith("core::result::Result::")):
        return None
    is_opt = "option::Option::" in c
    last = c.split("::")[-1]
    args = n.get("args", [])
    recv = n.get("recv")
    sp, ty = n.get("sp"), n.get("ty")
    hit_ctor = "std::prelude::v1::Some" if is_opt else "std::prelude::v1::Ok"

    def iflet(pat, then, els):
        return {"k": "if", "ty": ty, "sp": sp, "from_combinator": last,
                "cond": {"k": "letexpr", "ty": "bool", "sp": sp,
                         "pat": {"k": "ptstruct", "path": hit_ctor, "ps": [pat], "sp": sp}, "init": recv},
                "then": then if then.get("k") == "block" else _blk(then, sp, ty),
                "else": els if els.get("k") == "block" else _blk(els, sp, ty)}

    def fresh(name, vty):
        i = fresh_id()
        return ({"k": "pbind", "name": name, "id": i, "mode": "BindingMode(No, Not)", "ty": vty, "sp": sp},
                {"k": "local", "name": name, "id": i, "ty": vty, "sp": sp})
    if not is_opt:
        return None           # Result combinators: only through `?` below
    if last == "map" and len(args) == 1:
        f = _clo(args[0], 1)
        if f is None:
            return None
        return iflet(f["params"][0], _some(f["body"], ty, sp), _none(ty, sp))
    if last == "and_then" and len(args) == 1:
        f = _clo(args[0], 1)
        if f is None:
            return None
        return iflet(f["params"][0], f["body"], _none(ty, sp))
    if last in ("ok_or", "ok_or_else") and len(args) == 1:
        if last == "ok_or_else":
            f = _clo(args[0], 0)
            if f is None:
                return None
            err = f["body"]
        else:
            err = args[0]
            if not _is_pure(err):
                return None
        vty = (recv.get("ty") or "")
        p, v = fresh("v", "")
        return iflet(p, _ctor_call("Ok", v, ty, sp), _ctor_call("Err", err, ty, sp))
    if last == "unwrap_or_else" and len(args) == 1:
        f = _clo(args[0], 0)
        if f is None:
            return None
        p, v = fresh("v", ty)
        return iflet(p, v, f["body"])
    if last in ("map_or", "map_or_else") and len(args) == 2:
        f = _clo(args[1], 1)
        if f is None:
            return None
        if last == "map_or_else":
            d = _clo(args[0], 0)
            if d is None:
                return None
            dv = d["body"]
        else:
            dv = args[0]
            if not _is_pure(dv):
                return None
        return iflet(f["params"][0], f["body"], dv)
    return None


# ------------------------------------------------------------------ `?` over a known shape

def try_known(n):
    e = n.get("e")
    inner = _unblock(e)
    if not isinstance(inner, dict):
        return None
    if inner.get("k") == "block" and inner.get("stmts") and inner.get("expr") is not None and not inner.get("label"):
        # `{ s1; s2; v }?`  ==  `{ s1; s2; v? }` (an expanded helper that ends in Ok(..) / Err(..))
        t = {"k": "try", "ty": n.get("ty"), "sp": n.get("sp"), "e": inner["expr"]}
        r = try_known(t)
        if r is None:
            return None
        return dict(inner, expr=r, ty=n.get("ty"))
    if inner.get("k") == "if" and inner.get("else") is not None and inner.get("from_combinator"):
        out = dict(inner)
        out["ty"] = n.get("ty")

        def push(b):
            blk = b if b.get("k") == "block" else _blk(b, n.get("sp"), n.get("ty"))
            if blk.get("expr") is None:
                return blk
            t = {"k": "try", "ty": n.get("ty"), "sp": n.get("sp"), "e": blk["expr"]}
            r = try_known(t)
            blk = dict(blk)
            blk["expr"] = r if r is not None else t
            blk["ty"] = n.get("ty")
            return blk
        out["then"] = push(inner["then"])
        out["else"] = push(inner["else"])
        return out
    if inner.get("k") == "call" and str(inner.get("cdk", "")).startswith("Ctor") and len(inner.get("args", [])) == 1:
        nm = (inner.get("callee") or "").split("::")[-1]
        if nm in ("Ok", "Some"):
            return inner["args"][0]
        if nm == "Err":
            return {"k": "ret", "ty": "!", "sp": n.get("sp"), "e": inner, "from_try": True}
    if inner.get("k") == "def" and (inner.get("path") or "").endswith("::None"):
        return {"k": "ret", "ty": "!", "sp": n.get("sp"), "e": inner, "from_try": True}
    if str(inner.get("ty", "")).startswith("std::option::Option<") and inner.get("k") in ("mcall", "call", "local", "field") \
            and inner.get("callee") != "core::slice::<impl [T]>::get":
        # `e?` on an Option  ==  `match e { Some(v) => v, None => return None }`
        sp = n.get("sp")
        vid = fresh_id()
        vty = n.get("ty")
        pb = {"k": "pbind", "name": "some'", "id": vid, "mode": "BindingMode(No, Not)", "ty": vty, "sp": sp}
        cond = {"k": "letexpr", "ty": "bool", "sp": sp, "init": e,
                "pat": {"k": "ptstruct", "path": "std::prelude::v1::Some", "ps": [pb], "sp": sp}}
        none = {"k": "def", "ty": "std::option::Option<()>", "sp": sp, "dk": "Ctor(Variant, Const)", "path": "std::prelude::v1::None"}
        return {"k": "if", "ty": vty, "sp": sp, "cond": cond, "from_option_try": True,
                "then": {"k": "block", "sp": sp, "ty": vty, "stmts": [],
                         "expr": {"k": "local", "id": vid, "name": "some'", "ty": vty, "sp": sp}},
                "else": {"k": "block", "sp": sp, "ty": "!", "stmts": [{"k": "semi", "sp": sp, "ty": "()",
                         "e": {"k": "ret", "ty": "!", "sp": sp, "e": none, "from_try": True}}], "expr": None}}
    if inner.get("k") == "mcall" and inner.get("callee") == "core::slice::<impl [T]>::get" and len(inner.get("args", [])) == 1 \
            and inner["args"][0].get("ty") == "usize" and _is_pure(inner["recv"]) and _is_pure(inner["args"][0]) \
            and str(inner.get("ty", "")).startswith("std::option::Option<&"):
        # `s.get(i)?`  ==  `if s.len() <= i { return None }; &s[i]`   (get is None exactly for i >= len)
        sp = n.get("sp")
        recv, idx = inner["recv"], inner["args"][0]
        ln = {"k": "mcall", "ty": "usize", "sp": sp, "name": "len", "callee": "core::slice::<impl [T]>::len",
              "recv": copy.deepcopy(recv), "args": []}
        cond = {"k": "bin", "op": "<=", "ty": "bool", "sp": sp, "l": ln, "r": copy.deepcopy(idx)}
        none = {"k": "def", "ty": "std::option::Option<()>", "sp": sp, "dk": "Ctor(Variant, Const)", "path": "std::prelude::v1::None"}
        guard = {"k": "if", "ty": "()", "sp": sp, "cond": cond, "from_get_try": True,
                 "then": {"k": "block", "sp": sp, "ty": "!", "stmts": [{"k": "semi", "sp": sp, "ty": "()",
                          "e": {"k": "ret", "ty": "!", "sp": sp, "e": none, "from_try": True}}], "expr": None},
                 "else": None}
        elem_ty = str(inner["ty"])[len("std::option::Option<&"):-1]
        item = {"k": "addr", "ty": "&" + elem_ty, "sp": sp,
                "e": {"k": "index", "ty": elem_ty, "sp": sp, "e": copy.deepcopy(recv), "i": copy.deepcopy(idx)}}
        return {"k": "block", "ty": n.get("ty"), "sp": sp, "stmts": [{"k": "semi", "sp": sp, "ty": "()", "e": guard}], "expr": item}
    return None



# ------------------------------------------------------------------ let x = if c { A } else { diverge }

def _diverges(n):
    if n is None or not isinstance(n, dict):
        return False
    k = n.get("k")
    if k in ("ret", "break", "continue"):
        return True
    if k == "semi":
        return _diverges(n["e"])
    if k == "block":
        return any(_diverges(s) for s in n.get("stmts", [])) or _diverges(n.get("expr"))
    if k == "if":
        return n.get("else") is not None and _diverges(n["then"]) and _diverges(n["else"])
    if k in ("call", "mcall"):
        c = n.get("callee") or ""
        return c.startswith(("std::rt::begin_panic", "core::panicking::", "std::rt::panic")) or c == "std::process::exit" \
            or n.get("ty") == "!"
    return n.get("ty") == "!" and k not in ("loop",)


def let_of_diverging_if(blk):
    """`let p = if c { A } else { <diverges> }; rest`  ==  `if c { let p = A; rest } else { <diverges> }`
    (what `let p = e.ok_or(..)?;` / `let Some(p) = e else { return }` become: one shape for all of them)"""
    stmts = blk.get("stmts", [])
    for i, st in enumerate(stmts):
        if st.get("k") != "let" or st.get("init") is None or st.get("els") is not None:
            continue
        init = _unblock(st["init"])
        if not (isinstance(init, dict) and init.get("k") == "if" and init.get("else") is not None):
            continue
        if not _diverges(init["else"]) or _diverges(init["then"]):
            continue
        then = init["then"] if init["then"].get("k") == "block" else _blk(init["then"], st.get("sp"))
        if then.get("expr") is None:
            continue
        new_let = dict(st)
        new_let["init"] = then["expr"]
        rest = {"k": "block", "sp": st.get("sp"), "ty": blk.get("ty"), "stmts": list(then.get("stmts", [])) + [new_let] + stmts[i + 1:],
                "expr": blk.get("expr")}
        iff = dict(init)
        iff["then"] = rest
        iff["ty"] = blk.get("ty")
        iff["from_let_if"] = True
        blk["stmts"] = stmts[:i]
        blk["expr"] = iff
        return True
    return False



# ------------------------------------------------------------------ let r = &mut self.f;  *r += 1

def _place_path(e):
    """a field path rooted at a local (`self.a.b`, `x.f`), no calls / indexing"""
    while isinstance(e, dict) and e.get("k") == "field":
        e = e["e"]
        while isinstance(e, dict) and (e.get("k") == "un" and e.get("op") == "*"):
            e = e["e"]
    return isinstance(e, dict) and e.get("k") == "local"


def ref_alias(blk):
    """`let r = &mut self.f; .. *r ..`  ==  `.. self.f ..` (r immutable; the borrow checker already guarantees that
    nothing else touches `self.f` while r lives). Typical when a closure may not capture `self` as a whole."""
    from .inline import _replace_locals
    stmts = blk.get("stmts", [])
    changed = False
    i = 0
    while i < len(stmts):
        st = stmts[i]
        if st.get("k") == "let" and st.get("pat", {}).get("k") == "pbind" and "Mut)" not in st["pat"].get("mode", "") \
                and st.get("els") is None and isinstance(st.get("init"), dict) and st["init"].get("k") == "addr" \
                and ((st["init"]["e"].get("k") == "field" and _place_path(st["init"]["e"]))
                     or (st["init"]["e"].get("k") == "local" and not st["init"].get("mut")
                         and st["init"]["e"].get("name") != "self")):
            lid = st["pat"]["id"]
            rest = {"stmts": stmts[i + 1:], "expr": blk.get("expr")}
            rest = _replace_locals(rest, {lid: st["init"]})
            stmts = stmts[:i] + rest["stmts"]
            blk["expr"] = rest["expr"]
            changed = True
            continue
        i += 1
    blk["stmts"] = stmts
    return changed



# ------------------------------------------------------------------ explicit Entry match -> and_modify / or_insert

def entry_match(n):
    """`match m.entry(k) { Occupied(mut o) => { o.get_mut().f(args); }, Vacant(v) => { v.insert_entry(d); } }`
       ==  `m.entry(k).and_modify(|x| x.f(args)).or_insert(d);`   (the documented meaning of the combinators; std, scc)"""
    e = n.get("e")
    arms = n.get("arms", [])
    if not (isinstance(e, dict) and e.get("k") == "mcall" and (e.get("callee") or "").endswith("::entry") and len(arms) == 2):
        return None
    occ = next((a for a in arms if a["pat"].get("k") == "ptstruct" and a["pat"].get("path", "").endswith("Entry::Occupied")), None)
    vac = next((a for a in arms if a["pat"].get("k") == "ptstruct" and a["pat"].get("path", "").endswith("Entry::Vacant")), None)
    if occ is None or vac is None or occ.get("guard") or vac.get("guard"):
        return None
    if len(occ["pat"].get("ps", [])) != 1 or len(vac["pat"].get("ps", [])) != 1:
        return None
    ob, vb = occ["pat"]["ps"][0], vac["pat"]["ps"][0]
    if ob.get("k") != "pbind" or vb.get("k") != "pbind":
        return None

    def single(body):
        b = body
        if b.get("k") == "block":
            items = list(b.get("stmts", [])) + ([b["expr"]] if b.get("expr") is not None else [])
            if len(items) != 1:
                return None
            b = items[0]
        return b["e"] if b.get("k") == "semi" else b
    oc, vc = single(occ["body"]), single(vac["body"])
    if not (isinstance(oc, dict) and oc.get("k") == "mcall" and isinstance(vc, dict) and vc.get("k") == "mcall"):
        return None
    # occupied: <o.get_mut()>.f(args)
    r = _strip_ref(oc.get("recv"))
    if not (isinstance(r, dict) and r.get("k") == "mcall" and (r.get("callee") or "").split("::")[-1] in ("get_mut", "get")
            and _strip_ref(r.get("recv")).get("k") == "local" and _strip_ref(r["recv"]).get("id") == ob["id"]):
        return None
    if _uses_of(oc.get("args", []), ob["id"]):
        return None
    # vacant: v.insert_entry(d) / v.insert(d)
    if (vc.get("callee") or "").split("::")[-1] not in ("insert_entry", "insert") or len(vc.get("args", [])) != 1:
        return None
    vr = _strip_ref(vc.get("recv"))
    if not (isinstance(vr, dict) and vr.get("k") == "local" and vr.get("id") == vb["id"]) or _uses_of(vc["args"], vb["id"]):
        return None
    sp = n.get("sp")
    base = (e.get("callee") or "").rsplit("::", 1)[0]
    ent = "scc::hash_map::Entry" if base.startswith("scc::") else "std::collections::hash_map::Entry"
    vid = fresh_id()
    vty = r.get("ty", "")
    clo = {"k": "closure", "sp": sp, "ty": "closure", "def": "entry_match", "params": [
        {"k": "pbind", "name": "v", "id": vid, "mode": "BindingMode(No, Not)", "ty": vty, "sp": sp}],
        "body": dict(oc, recv={"k": "local", "name": "v", "id": vid, "ty": vty, "sp": sp})}
    am = {"k": "mcall", "ty": e.get("ty"), "sp": sp, "name": "and_modify", "callee": ent + "::and_modify", "recv": e, "args": [clo]}
    return {"k": "mcall", "ty": vc.get("ty"), "sp": sp, "name": "or_insert", "callee": ent + "::or_insert", "recv": am,
            "args": vc["args"], "from_entry_match": True}



# ------------------------------------------------------------------ let f = |..| body;  f(..)   (called once)

_SEQ = [0]


def _renumber_bound(tree):
    """give the locals DECLARED inside `tree` fresh ids (captured outer locals keep theirs)"""
    _SEQ[0] += 1
    off = 500000000 + _SEQ[0] * 100000
    bound = set()
    stack = [tree]
    nodes = []
    while stack:
        x = stack.pop()
        if isinstance(x, dict):
            nodes.append(x)
            if x.get("k") == "pbind" and isinstance(x.get("id"), int):
                bound.add(x["id"])
            stack.extend(v for v in x.values() if isinstance(v, (dict, list)))
        elif isinstance(x, list):
            stack.extend(x)
    lids = set(x["lid"] for x in nodes if x.get("k") in ("loop", "for", "while") and isinstance(x.get("lid"), int))
    for x in nodes:
        k = x.get("k")
        if k in ("local", "pbind") and x.get("id") in bound:
            x["id"] += off
        if k in ("loop", "for", "while") and x.get("lid") in lids:
            x["lid"] += off
        if k in ("break", "continue") and x.get("target") in lids:
            x["target"] += off


def _is_bookkeeping(clo):
    """closure body = a few plain (compound) assignments, nothing else: shared bookkeeping such as
    `|len| { total += len; count += 1; }` (copying it to its call sites duplicates no call, loop or branch)"""
    b = clo.get("body")
    if not isinstance(b, dict):
        return False
    if b.get("k") != "block":
        b = {"stmts": [], "expr": b}
    items = list(b.get("stmts", [])) + ([b["expr"]] if b.get("expr") is not None else [])
    if not items:
        return False
    for it in items:
        x = it["e"] if it.get("k") == "semi" else it
        if x.get("k") not in ("assign", "assignop"):
            return False
        for y in _walk_nodes(x):
            if y.get("k") in ("call", "mcall", "if", "match", "loop", "for", "while", "closure", "ret", "try"):
                return False
    return True


def _walk_nodes(x):
    stack = [x]
    while stack:
        y = stack.pop()
        if isinstance(y, dict):
            yield y
            stack.extend(v for v in y.values() if isinstance(v, (dict, list)))
        elif isinstance(y, list):
            stack.extend(y)


def _all_callee_uses(tree, lid, n_uses):
    n = 0
    stack = [tree]
    while stack:
        x = stack.pop()
        if isinstance(x, dict):
            f = x.get("f")
            if x.get("k") == "call" and isinstance(f, dict):
                g = f
                while isinstance(g, dict) and g.get("k") == "addr":
                    g = g.get("e")
                if isinstance(g, dict) and g.get("k") == "local" and g.get("id") == lid:
                    n += 1
            stack.extend(v for v in x.values() if isinstance(v, (dict, list)))
        elif isinstance(x, list):
            stack.extend(x)
    return n == n_uses


def scalarise_struct_local(blk):
    """`let mut s = S { a: e1, b: e2 }; .. s.a += x .. ; s`  ==  `let mut s_a = e1; let mut s_b = e2; .. s_a += x ..;
    S { a: s_a, b: s_b }`: a local struct that is only ever touched field by field and handed out whole once, at the
    block's tail, is a set of accumulators (scalar replacement of aggregates)."""
    stmts = blk.get("stmts", [])
    tail = blk.get("expr")
    if not (isinstance(tail, dict) and tail.get("k") == "local"):
        return False
    for i, st in enumerate(stmts):
        init = st.get("init") if st.get("k") == "let" else None
        if not (st.get("k") == "let" and st.get("pat", {}).get("k") == "pbind" and st["pat"].get("id") == tail.get("id")
                and isinstance(init, dict) and init.get("k") == "struct" and init.get("base") is None and st.get("els") is None):
            continue
        lid = st["pat"]["id"]
        rest = {"stmts": stmts[i + 1:]}
        uses = _uses_of(rest, lid)
        # every other use is the base of a field projection
        fields_ok = []
        stack = [rest]
        while stack:
            x = stack.pop()
            if isinstance(x, dict):
                if x.get("k") == "field" and isinstance(x.get("e"), dict) and x["e"].get("k") == "local" and x["e"].get("id") == lid:
                    fields_ok.append(x)
                stack.extend(v for v in x.values() if isinstance(v, (dict, list)))
            elif isinstance(x, list):
                stack.extend(x)
        names = [f["name"] for f in init.get("fields", [])]
        if len(fields_ok) != len(uses) or any(f["name"] not in names for f in fields_ok):
            return False
        _SEQ[0] += 1
        base = 700000000 + _SEQ[0] * 1000
        ids = {nm: base + j for j, nm in enumerate(names)}
        lets = []
        for f in init["fields"]:
            e = f["e"]
            lets.append({"k": "let", "sp": st.get("sp"), "init": e,
                         "pat": {"k": "pbind", "name": "%s.%s" % (st["pat"].get("name"), f["name"]), "id": ids[f["name"]],
                                 "mode": "BindingMode(No, Mut)", "ty": e.get("ty"), "sp": st.get("sp")}})
        for x in fields_ok:
            nm = x["name"]
            ty = x.get("ty")
            sp = x.get("sp")
            x.clear()
            x.update({"k": "local", "id": ids[nm], "name": "%s.%s" % (st["pat"].get("name"), nm), "ty": ty, "sp": sp})
        blk["stmts"] = stmts[:i] + lets + stmts[i + 1:]
        blk["expr"] = dict(init, fields=[dict(f, e={"k": "local", "id": ids[f["name"]], "name": "%s.%s" % (st["pat"].get("name"), f["name"]),
                                                     "ty": f["e"].get("ty"), "sp": tail.get("sp")}) for f in init["fields"]],
                           sp=tail.get("sp"), scalarised=True)
        return True
    return False


def for_ok_else_break(n):
    """`for x in IT { let Ok(v) = x else { break }; BODY }`  ==  `for v in IT.map_while(Result::ok) { BODY }`
    (the same for `Some(v)`: map_while(identity) is not spelled, so only Ok is folded)"""
    if n.get("k") != "for" or n.get("pat", {}).get("k") != "pbind":
        return None
    b = n.get("body")
    if not isinstance(b, dict) or b.get("k") != "block" or b.get("stmts") or not isinstance(b.get("expr"), dict):
        return None
    i = b["expr"]
    c = i.get("cond") if i.get("k") == "if" else None
    if not (isinstance(c, dict) and c.get("k") == "letexpr" and isinstance(c.get("init"), dict)
            and c["init"].get("k") == "local" and c["init"].get("id") == n["pat"].get("id")):
        return None
    p = c["pat"]
    if not (p.get("k") == "ptstruct" and p.get("path", "").endswith("::Ok") and len(p.get("ps", [])) == 1
            and p["ps"][0].get("k") == "pbind"):
        return None
    e = i.get("else")
    es = (e.get("stmts", []) + ([e["expr"]] if e.get("expr") is not None else [])) if isinstance(e, dict) and e.get("k") == "block" else [e]
    es = [x["e"] if isinstance(x, dict) and x.get("k") == "semi" else x for x in es]
    if len(es) != 1 or not isinstance(es[0], dict) or es[0].get("k") != "break" or es[0].get("target") != n.get("lid") \
            or es[0].get("e") is not None:
        return None
    if len(_uses_of(i.get("then"), n["pat"]["id"])) != 0:
        return None
    sp = n.get("sp")
    it = {"k": "mcall", "ty": "std::iter::MapWhile<..>", "sp": sp, "name": "map_while", "callee": "std::iter::Iterator::map_while",
          "recv": n["iter"], "args": [{"k": "def", "ty": "fn", "sp": sp, "dk": "AssocFn", "path": "std::result::Result::<T, E>::ok"}],
          "from_let_else_break": True}
    then = i["then"] if i["then"].get("k") == "block" else _blk(i["then"], sp, "()")
    return dict(n, pat=p["ps"][0], iter=it, body=then)


def openoptions_create(n):
    """`OpenOptions::new().write(true).create(true).truncate(true).open(p)` (flags in any order, nothing else set)
    is `File::create(p)` spelled out"""
    if n.get("k") != "mcall" or n.get("callee") != "std::fs::OpenOptions::open" or len(n.get("args", [])) != 1:
        return None
    flags = {}
    r = n.get("recv")
    while isinstance(r, dict) and r.get("k") in ("addr", "paren"):
        r = r.get("e")
    while isinstance(r, dict) and r.get("k") == "mcall" and (r.get("callee") or "").startswith("std::fs::OpenOptions::"):
        a = r.get("args", [])
        if len(a) != 1 or a[0].get("k") != "lit" or not isinstance(a[0].get("v"), bool) or r["name"] in flags:
            return None
        flags[r["name"]] = a[0]["v"]
        r = r.get("recv")
        while isinstance(r, dict) and r.get("k") in ("addr",):
            r = r.get("e")
    if not (isinstance(r, dict) and r.get("k") == "call" and r.get("callee") == "std::fs::OpenOptions::new"):
        return None
    on = {k for k, v in flags.items() if v}
    if on != {"write", "create", "truncate"}:
        return None
    sp = n.get("sp")
    return {"k": "call", "ty": n.get("ty"), "sp": sp, "callee": "std::fs::File::create", "cdk": "AssocFn",
            "f": {"k": "def", "ty": "fn", "sp": sp, "dk": "AssocFn", "path": "std::fs::File::create"},
            "args": n["args"], "from_openoptions": True}


_INTS = ("u8", "u16", "u32", "u64", "u128", "usize", "i8", "i16", "i32", "i64", "i128", "isize", "bool", "f32", "f64")


def replace_to_assign(blk):
    """`let old = mem::replace(&mut P, V);`  ==  `let old = P; P = V;`  for a Copy scalar place P (read-then-reset)"""
    stmts = blk.get("stmts", [])
    out = []
    changed = False
    for st in stmts:
        init = _unblock(st.get("init")) if st.get("k") == "let" else None
        if st.get("k") == "let" and st.get("pat", {}).get("k") == "pbind" and st.get("els") is None and isinstance(init, dict) \
                and init.get("k") == "call" and init.get("callee") in ("std::mem::replace", "core::mem::replace") \
                and len(init.get("args", [])) == 2 and init["args"][0].get("k") == "addr" \
                and (init["args"][0]["e"].get("ty") in _INTS):
            place = init["args"][0]["e"]
            out.append(dict(st, init=copy.deepcopy(place)))
            out.append({"k": "semi", "sp": st.get("sp"), "ty": "()",
                        "e": {"k": "assign", "ty": "()", "sp": st.get("sp"), "l": copy.deepcopy(place), "r": init["args"][1],
                              "from_replace": True}})
            changed = True
        else:
            out.append(st)
    if changed:
        blk["stmts"] = out
    return changed


def beta_local_closures(blk):
    """A closure bound to an immutable local and called exactly once is its body at the call (`let next = || reader
    .lock().unwrap().next(); while let Some(r) = next() { .. }`): nothing else can observe the closure value."""
    from .inline import _beta
    stmts = blk.get("stmts", [])
    i = 0
    changed = False
    while i < len(stmts):
        st = stmts[i]
        init = _unblock(st.get("init")) if st.get("k") == "let" else None
        if st.get("k") == "let" and st.get("pat", {}).get("k") == "pbind" and st.get("els") is None \
                and isinstance(init, dict) and init.get("k") == "closure":
            lid = st["pat"]["id"]
            rest = {"stmts": stmts[i + 1:], "expr": blk.get("expr")}
            uses = _uses_of(rest, lid)
            if len(uses) == 1:
                new = _beta(rest, lid, init)
                if new is not None:
                    stmts = stmts[:i] + new["stmts"]
                    blk["expr"] = new["expr"]
                    changed = True
                    continue
            elif len(uses) > 1 and not init.get("move") and _is_bookkeeping(init) and _all_callee_uses(rest, lid, len(uses)):
                # a by-reference closure called several times: each call is its body (locals it declares get fresh ids)
                cur_ = rest
                ok_ = True
                for _ in range(len(uses)):
                    c_ = copy.deepcopy(init)
                    _renumber_bound(c_)
                    nxt_ = _beta(cur_, lid, c_)
                    if nxt_ is None:
                        ok_ = False
                        break
                    cur_ = nxt_
                if ok_ and not _uses_of(cur_, lid):
                    stmts = stmts[:i] + cur_["stmts"]
                    blk["expr"] = cur_["expr"]
                    changed = True
                    continue
        i += 1
    blk["stmts"] = stmts
    return changed



# ------------------------------------------------------------------ match on integer literals -> if chain

def match_ints(n):
    """`match x { 0 => A, 1 => B, w => C }` (side-effect-free scrutinee, integer literal arms, last arm a binding or `_`)
       ==  `if x == 0 { A } else if x == 1 { B } else { let w = x; C }`"""
    e = n.get("e")
    arms = n.get("arms", [])
    if not isinstance(e, dict) or len(arms) < 2 or any(a.get("guard") is not None for a in arms) or not _is_pure(e):
        return None
    ty = e.get("ty", "")
    if ty not in ("u8", "u16", "u32", "u64", "u128", "usize", "i8", "i16", "i32", "i64", "i128", "isize"):
        return None
    last = arms[-1]["pat"]
    if last.get("k") not in ("pwild", "pbind") or last.get("sub"):
        return None
    for a in arms[:-1]:
        p = a["pat"]
        if p.get("k") != "plit" or p.get("lk") == "bool" or not isinstance(p.get("v"), int):
            return None
    tail = arms[-1]["body"]
    if last.get("k") == "pbind":
        tb = tail if tail.get("k") == "block" else _blk(tail, n.get("sp"), n.get("ty"))
        tail = dict(tb, stmts=[{"k": "let", "pat": last, "init": copy.deepcopy(e), "sp": last.get("sp")}] + list(tb.get("stmts", [])))
    chain = tail if tail.get("k") == "block" else _blk(tail, n.get("sp"), n.get("ty"))
    for a in reversed(arms[:-1]):
        cond = {"k": "bin", "op": "==", "ty": "bool", "sp": a["pat"].get("sp") or n.get("sp"), "l": copy.deepcopy(e),
                "r": {"k": "lit", "lk": "int", "v": a["pat"]["v"], "ty": ty, "sp": a["pat"].get("sp")}}
        chain = _blk({"k": "if", "ty": n.get("ty"), "sp": n.get("sp"), "cond": cond, "from_int_match": True,
                      "then": a["body"] if a["body"].get("k") == "block" else _blk(a["body"], n.get("sp"), n.get("ty")),
                      "else": chain}, n.get("sp"), n.get("ty"))
    return chain["expr"]



# ------------------------------------------------------------------ it.for_each(|x| B)  ->  for x in it { B }

def for_each_to_for(n):
    """std `Iterator::for_each` with a closure literal is the `for` loop over the same iterator (sequential, in order);
    rayon's `ParallelIterator::for_each` is NOT touched."""
    c = n.get("callee") or ""
    if not (c.endswith("iter::Iterator::for_each") or c.endswith("iterator::Iterator::for_each")) or len(n.get("args", [])) != 1:
        return None
    f = _clo(n["args"][0], 1)
    if f is None:
        return None
    from .inline import _has_ret
    if _has_ret(f["body"]):
        return None
    body = f["body"] if f["body"].get("k") == "block" else _blk(f["body"], n.get("sp"), "()")
    return {"k": "for", "ty": "()", "sp": n.get("sp"), "mac": "desugar:ForLoop", "lid": fresh_id(),
            "iter_ty": (n.get("recv") or {}).get("ty", ""), "pat": f["params"][0], "iter": n["recv"], "body": body,
            "from_for_each": True}
