"""C03 — canonical k-mer column index is a dense ordered bijection matching the header."""
from .common import *

EXPLANATION = (
    "Construction-shape rules on kmer_pos_maps (code range and table both 4^k by 2-adic normal form; "
    "set fed with min(x, rev_comp(x,k)); the vector built from the hash set is sorted before it is "
    "enumerated; both maps written from the same (rank, k-mer) pair; count = set size), coherence of "
    "every constructor that stores the maps (all three components and k from one call), the three "
    "header builders place numeric_to_kmer(kmer, k) at its rank with that k, the canonical reducer is "
    "min at every consumer of generator pairs, and the header line is join(delim)+newline in both "
    "writer paths. Does not decide the closed-form column count.")
ASSUMPTIONS = ["ascending sort + monotone decode table (C02.T1) gives alphabetical column order"]

MAPS = "kmer::kmer::KmerGenerator::kmer_pos_maps"
REVCOMP = "kmer::kmer::KmerGenerator::rev_comp"
N2K = "kmer::numeric_to_kmer"

POSMAP_OWNERS = [
    # (constructor, adt, {role: field})
    ("composition::oligo::OligoComputer::new", "composition::oligo::OligoComputer",
     {"pos_map": "pos_map", "pos_kmer": "pos_kmer", "kcount": "kcount", "ksize": "ksize"}),
    ("composition::oligocgr::OligoCgrComputer::new", "composition::oligocgr::OligoCgrComputer",
     {"pos_map": "pos_map", "kcount": "kcount", "ksize": "ksize"}),
    ("pybindings::oligo::OligoComputer::new", "pybindings::oligo::OligoComputer",
     {"pos_map": "pos_map", "pos_kmer": "pos_kmer", "kcount": "kcount", "ksize": "ksize"}),
]


def maps_call_of(t):
    """(call_term, index) when t is proj_i(kmer_pos_maps(K))"""
    if t[0] == "proj" and t[2][0] == "call" and t[2][1] == MAPS:
        return t[2], t[1]
    return None, None


def rule_posmap_ctor(ctx, rule, ctor, adt, roles):
    """All stored components come from ONE kmer_pos_maps(K) call and the stored k is that K."""
    fv = ctx.need(rule, ctor)
    if fv is None:
        return None
    lit = struct_literal(fv, adt)
    if lit is None:
        ctx.fail(rule, "%s:literal" % adt, "constructor no longer builds `%s` with a struct literal" % adt,
                 fv.fn["sp"])
        return None
    fs = struct_fields(fv, lit)
    calls = set()
    want_idx = {"pos_map": 0, "pos_kmer": 1, "kcount": 2}
    for role, idx in want_idx.items():
        if role not in roles:
            continue
        t = fs.get(roles[role])
        call, i = maps_call_of(t) if t else (None, None)
        ctx.check(rule, "%s.%s" % (adt, roles[role]), call is not None and i == idx,
                  "%s = component %d of kmer_pos_maps(..)" % (roles[role], idx),
                  "field `%s` = %s, expected component %d of KmerGenerator::kmer_pos_maps(k)"
                  % (roles[role], show(t) if t else "<missing>", idx), line_of(lit))
        if call is not None:
            calls.add(call)
    k = fs.get(roles["ksize"])
    same = len(calls) == 1 and k is not None and list(calls)[0][2] == k
    ctx.check(rule, "%s.%s" % (adt, roles["ksize"]), same,
              "stored k is the k the maps were built with",
              "stored `%s` = %s but the maps come from %s — the rank map and the generator would use "
              "different k" % (roles["ksize"], show(k) if k else "<missing>", [show(c) for c in calls]),
              line_of(lit))
    kk = list(calls)[0][2] if len(calls) == 1 else None
    ctx.check(rule, "%s.%s:is_the_argument" % (adt, roles["ksize"]), kk is not None and is_param(fv, kk, "ksize"),
              "the maps are built for the constructor's own `ksize` argument",
              "the maps are built for `%s`, not for the `ksize` the caller asked for (clamped / adjusted): the vector has "
              "the columns of another k" % (show(kk) if kk else "?"), line_of(lit))
    return fv


def header_builder(ctx, rule, fv, who, src, n, k):
    """`out = vec![String::new(); n]; for (&pos,&kmer) in src.iter() { out[pos] = numeric_to_kmer(kmer, k) }`"""
    loops = [l for l in fv.nodes if l.get("k") == "for"]
    found = None
    for l in loops:
        it = fv.term(l["iter"])
        if (it[0] == "call" and it[1].split("::")[-1] in ("iter", "into_iter") and it[2] == src) or it == src:
            found = l
            break
    if found is None:
        ctx.fail(rule, "%s:iterates" % who, "header builder no longer iterates the rank -> k-mer map `%s`"
                 % show(src), fv.fn["sp"])
        return
    item = ("item", fv.term(found["iter"]))
    pos, kmer = ("proj", 0, item), ("proj", 1, item)
    writes = [x for x in walk(found["body"]) if x.get("k") == "assign"]
    ok_w = None
    for w in writes:
        lt, rt = fv.term(w["l"]), fv.term(w["r"])
        if lt[0] == "index":
            ok_w = (w, lt, rt)
    if ok_w is None:
        ctx.fail(rule, "%s:place" % who, "no `out[rank] = text` assignment in the header loop", line_of(found))
        return
    w, lt, rt = ok_w
    ctx.check(rule, "%s:rank" % who, lt[2] == pos, "text placed at its rank",
              "k-mer text is stored at index `%s`, expected the map key (rank)" % show(lt[2]), line_of(w))
    ctx.check(rule, "%s:text" % who, rt == ("call", N2K, kmer, k),
              "text = numeric_to_kmer(kmer, %s)" % show(k),
              "header text is `%s`, expected numeric_to_kmer(<map value>, %s)" % (show(rt), show(k)), line_of(w))
    # the vector written to: allocated with n entries
    base = lt[1]
    alloc = None
    if base[0] == "local":
        b = fv.binds.get(base[2])
        if b and b["val"][0] == "node":
            alloc = fv.term(b["val"][1])
    ok_alloc = alloc is not None and alloc[0] == "call" and alloc[1].endswith("from_elem") and alloc[3] == n
    if not ok_alloc and base[0] == "local":
        # `Vec::with_capacity(n)` / `Vec::new()` followed by `resize_with(n, String::new)` / `resize(n, String::new())`
        rs = [x for x in fv.nodes if x.get("k") == "mcall" and cname(x).split("::")[-1] in ("resize_with", "resize")
              and fv.term(x["recv"]) in (base, ("ver",) ) or (x.get("k") == "mcall" and cname(x).split("::")[-1] in ("resize_with", "resize")
              and x["recv"].get("k") in ("local", "addr") and (x["recv"] if x["recv"].get("k") == "local" else x["recv"]["e"]).get("id") == base[2])]
        ok_alloc = len(rs) == 1 and alloc is not None and alloc[0] == "call" and alloc[1].split("::")[-1] in ("with_capacity", "new") \
            and fv.term(rs[0]["args"][0]) == n
    ctx.check(rule, "%s:len" % who, ok_alloc, "header vector has %s entries" % show(n),
              "header vector is allocated as `%s`, expected %s entries" % (show(alloc) if alloc else "?", show(n)),
              line_of(w))


def run(ctx):
    maps_rules(ctx)
    # constructor coherence + header family
    for ctor, adt, roles in POSMAP_OWNERS:
        rule_posmap_ctor(ctx, "C03.H", ctor, adt, roles)
    fv = ctx.need("C03.H", "composition::oligo::OligoComputer::get_header")
    if fv is not None:
        header_builder(ctx, "C03.H", fv, "composition::oligo::get_header", SF("pos_kmer"), SF("kcount"), SF("ksize"))
        res = fv.term(fv.body.get("expr")) if fv.body.get("expr") else None
    fv = ctx.need("C03.H", "pybindings::oligo::OligoComputer::get_header")
    if fv is not None:
        header_builder(ctx, "C03.H", fv, "pybindings::oligo::get_header", SF("pos_kmer"), SF("kcount"), SF("ksize"))
    fv = ctx.need("C03.H", "composition::oligocgr::OligoCgrComputer::new")
    if fv is not None:
        kp = param_index(fv, "ksize")
        call = ("call", MAPS, ("param", kp))
        header_builder(ctx, "C03.H", fv, "composition::oligocgr::new", ("proj", 1, call), ("proj", 2, call),
                       ("param", kp))
        lit = struct_literal(fv, "composition::oligocgr::OligoCgrComputer")
        if lit is not None:
            fs = struct_fields(fv, lit)
            kt = fs.get("kmers")
            ctx.check("C03.H", "composition::oligocgr::new:stored", kt is not None and kt[0] == "local",
                      "the built vector is stored as `kmers`", "`kmers` field is %s" % (show(kt) if kt else "?"),
                      line_of(lit))
    ctx.floor("C03.H", 3 * 3 + 3 * 3)
    canonical_min_rule(ctx, "C03.M")
    header_line_rule(ctx)
    cli_deps(ctx)
    # the bijection is built from rev_comp and named through numeric_to_kmer: their codec rules are part of this check
    from . import c02
    d = dep(ctx, "C03", "C02")
    tab = (ctx.prog.consts.get(c02.TABLE) or {}).get("bytes")
    if tab is not None:
        c02.decode_rules(d, tab)
    c02.revcomp_rules(d)


def maps_rules(ctx, P="C03"):
    fv = ctx.need(P + ".K1", MAPS)
    if fv is not None:
        rule_pure_function(ctx, P + ".K1", fv, "kmer_pos_maps")
        panic_audit(ctx, P + ".K1", ["kmer::kmer::KmerGenerator::kmer_pos_maps", "kmer::kmer::KmerGenerator::rev_comp", "kmer::numeric_to_kmer"])
    if fv is None:
        return
    kp = param_index(fv, "ksize")
    ksym = lambda t: t == ("param", kp)
    # K1: table allocation and code range
    alloc = [n for n in fv.nodes if is_call_to(n, "std::vec::from_elem", "alloc::vec::from_elem")]
    loops = [n for n in fv.nodes if n.get("k") == "for"]
    code_loop = None
    for l in loops:
        it = fv.term(l["iter"])
        has_set_insert = any(x.get("k") == "mcall" and cname(x).endswith("Set::insert") for x in walk(l["body"]))
        if it[0] == "struct" and it[1].endswith("ops::Range") and has_set_insert:
            code_loop = l
    if not alloc or code_loop is None:
        ctx.fail(P + ".K1", "kmer_pos_maps:shape", "table allocation / code loop not found", fv.fn["sp"])
        return
    for what, t, node in (("table", fv.term(alloc[0]["args"][1]), alloc[0]),
                          ("range", dict(fv.term(code_loop["iter"])[2]).get("end"), code_loop)):
        try:
            got = pow2form(t, ksym, ctx.prog.consts)
            ctx.check(P + ".K1", "kmer_pos_maps:%s" % what, got == {(2, 0): 1},
                      "%s size %s ≡ 4^k" % (what, show(t)),
                      "%s size `%s` normalises to %s, expected 2^(2k) = 4^k" % (what, show(t), pow2show(got)),
                      line_of(node))
        except NotPoly as e:
            ctx.fail(P + ".K1", "kmer_pos_maps:%s" % what, "%s size `%s`: %s" % (what, show(t), e), line_of(node))
    start = dict(fv.term(code_loop["iter"])[2]).get("start")
    ctx.check(P + ".K1", "kmer_pos_maps:range_start", start == L(0), "codes from 0",
              "code loop starts at %s" % show(start), line_of(code_loop))
    # K2: set.insert(min(code, rev_comp(code, k)))
    code = ("item", fv.term(code_loop["iter"]))
    ins = [n for n in walk(code_loop["body"]) if n.get("k") == "mcall" and cname(n).endswith("HashSet::insert")
           or n.get("k") == "mcall" and cname(n).endswith("BTreeSet::insert")]
    exp = mk_bin("min", code, ("call", REVCOMP, code, ("param", kp)))
    ok = len(ins) == 1 and fv.term(ins[0]["args"][0]) == exp
    ctx.check(P + ".K2", "kmer_pos_maps:canonical", ok, "set <- min(x, rev_comp(x, k))",
              "the canonical set receives `%s`, expected min(code, rev_comp(code, ksize))"
              % (show(fv.term(ins[0]["args"][0])) if ins else "<no insert>"),
              line_of(ins[0]) if ins else line_of(code_loop))
    set_t = fv.term(ins[0]["recv"]) if ins else None
    ordered_set = bool(ins) and cname(ins[0]).endswith("BTreeSet::insert")
    # K3: sorted before enumerate
    enum_loop = None
    for l in loops:
        if l is code_loop:
            continue
        X_, idx_, _ = indexed_traversal(fv.term(l["iter"]))
        if X_ is not None:
            enum_loop = l
    if enum_loop is None:
        ctx.fail(P + ".K3", "kmer_pos_maps:enumerate", "rank assignment loop (`.iter().enumerate()`) not found",
                 fv.fn["sp"])
        return
    it = fv.term(enum_loop["iter"])
    vec_t, pos_t, is_elem = indexed_traversal(it)
    top = fv.body.get("stmts", [])
    idx_loop = next((i for i, s in enumerate(top) if s is enum_loop or (s.get("k") == "semi" and s["e"] is enum_loop)), None)
    sorted_before = False
    for i, s in enumerate(top[:idx_loop] if idx_loop is not None else []):
        x = s["e"] if s.get("k") == "semi" else s
        if x.get("k") == "mcall" and cname(x).split("::")[-1] in ("sort", "sort_unstable") \
                and fv.term(x["recv"]) == vec_t:
            sorted_before = True
    # where does the vector come from?
    src_ok = False
    if vec_t[0] == "local":
        b = fv.binds.get(vec_t[2])
        if b and b["val"][0] == "node":
            src = fv.term(b["val"][1])
            src_ok = set_t is not None and contains(src, lambda s: s == set_t)
    if ordered_set and set_t is not None and vec_t == set_t:
        src_ok = True      # the ordered set itself is traversed: ascending order by construction
    ctx.check(P + ".K3", "kmer_pos_maps:sorted", (sorted_before or ordered_set) and src_ok,
              "vector from the canonical set is sorted before ranks are assigned",
              "the vector enumerated for ranks is not (provably) the sorted canonical set: sorted=%s, "
              "built-from-set=%s — hash order must not reach a column index" % (sorted_before or ordered_set, src_ok),
              line_of(enum_loop))
    # K4: both maps from the same pair; count
    pos = pos_t
    asg = [n for n in walk(enum_loop["body"]) if n.get("k") == "assign"]
    ins2 = [n for n in walk(enum_loop["body"]) if n.get("k") == "mcall" and cname(n).endswith("Map::insert")]
    ok1 = len(asg) == 1 and fv.term(asg[0]["l"])[0] == "index" and is_elem(fv.term(asg[0]["l"])[2]) \
        and fv.term(asg[0]["r"]) == pos
    kmer = fv.term(asg[0]["l"])[2] if ok1 else ("none",)
    ctx.check(P + ".K4", "kmer_pos_maps:kmer_to_rank", ok1, "rank_of[kmer] = pos",
              "k-mer -> rank write is `%s = %s`, expected table[kmer] = pos"
              % ((show(fv.term(asg[0]["l"])), show(fv.term(asg[0]["r"]))) if asg else ("?", "?")),
              line_of(asg[0]) if asg else line_of(enum_loop))
    ok2 = len(ins2) == 1 and [fv.term(a) for a in ins2[0]["args"]] == [pos, kmer]
    ctx.check(P + ".K4", "kmer_pos_maps:rank_to_kmer", ok2, "kmer_of.insert(pos, kmer)",
              "rank -> k-mer insert is `%s`, expected insert(pos, kmer) with the same pair"
              % (show(fv.term(ins2[0])) if ins2 else "<none>"), line_of(ins2[0]) if ins2 else line_of(enum_loop))
    rt = fv.fn.get("ret", "")
    import re as _re
    narrow = [t for t in _re.findall(r"\b[ui](?:8|16|32)\b", rt)]
    ctx.check(P + ".K4", "kmer_pos_maps:rank_width", not narrow, "ranks and k-mers are stored at full width (%s)" % rt,
              "kmer_pos_maps returns `%s`: a %s rank/k-mer wraps for larger k (4^k/2 ranks, 2k-bit codes)"
              % (rt, narrow[0] if narrow else ""), fv.fn["sp"])
    res = fv.term(fv.body.get("expr")) if fv.body.get("expr") else ("none",)
    ok3 = res[0] == "tup" and len(res) == 4 and set_t is not None and (is_len_of(res[3], set_t) or is_len_of(res[3], vec_t)) \
        and ok1 and res[1] == fv.term(asg[0]["l"])[1] and ok2 and res[2] == fv.term(ins2[0]["recv"])
    ctx.check(P + ".K4", "kmer_pos_maps:result", ok3, "returns (rank_of, kmer_of, |canonical set|)",
              "result `%s` is not (rank table, rank->kmer map, size of the canonical set)" % show(res),
              line_of(fv.body))


def canonical_min_rule(ctx, rule):
    """Every consumer of (forward, reverse) pairs reduces them with min before any other use."""
    n = 0
    for fv in ctx.all_views():
        for l in fv.nodes:
            if l.get("k") != "for" or "kmer::kmer::KmerGenerator<" not in l.get("iter_ty", ""):
                continue
            n += 1
            item = ("item", fv.term(l["iter"]))
            p0, p1 = ("proj", 0, item), ("proj", 1, item)
            canon = mk_bin("min", p0, p1)
            bad = None
            for x in walk(l["body"]):
                if x.get("k") in ("local",):
                    t = fv.term(x)
                    if t in (p0, p1):
                        # must sit directly inside min(p0, p1)
                        par = fv.parent.get(id(x))
                        while par is not None and par.get("k") in ("addr", "cast", "un"):
                            par = fv.parent.get(id(par))
                        pt = fv.term(par) if par is not None else None
                        if pt != canon:
                            # a `let m = min(f, r)` binding: the local's parent is the call
                            bad = x
            ctx.check(rule, "%s:loop@%d" % (fv.path, n), bad is None,
                      "pairs of %s are only used as min(fwd, rev)" % show(fv.term(l["iter"])),
                      "a strand value of the pair is used outside min(forward, reverse) — the key is not canonical",
                      line_of(bad) if bad else line_of(l))
    # minimiser generators: the value pushed / compared is min(m_val_f, m_val_r)
    for path, pairs in (("<kmer::minimiser::MinimiserGenerator as std::iter::Iterator>::next", [("m_val_f", "m_val_r")]),
                        ("<kmer::kmer_minimisers::KmerMinimiserGenerator as std::iter::Iterator>::next",
                         [("m_val_f", "m_val_r"), ("k_val_f", "k_val_r")])):
        fv = ctx.need(rule, path)
        if fv is None:
            continue
        for f, r in pairs:
            canon = mk_bin("min", SF(f), SF(r))
            bad = None
            uses = 0
            for x in fv.nodes:
                if x.get("k") == "field" and x["name"] in (f, r) and fv.term(x) in (SF(f), SF(r)):
                    par = fv.parent.get(id(x))
                    # updates of the register itself are fine
                    asg = fv.enclosing(x, ("assign", "assignop"))
                    if asg is not None and fv.term(asg["l"]) in (SF(f), SF(r)):
                        continue
                    while par is not None and par.get("k") in ("addr", "cast"):
                        par = fv.parent.get(id(par))
                    uses += 1
                    if par is None or fv.term(par) != canon:
                        bad = x
            n += 1
            ctx.check(rule, "%s:%s" % (path.split("::")[2] if "::" in path else path, f),
                      bad is None and uses >= 2, "register pair %s/%s only read as min(f, r)" % (f, r),
                      "register %s/%s is read outside min(forward, reverse)" % (f, r),
                      line_of(bad) if bad else fv.fn["sp"])
    ctx.floor(rule, 8)


def cli_deps(ctx):
    """the header exists for every k the CLI admits and is joined with the preset's delimiter: option range and setters"""
    from . import c15
    c15.ranges_rule(dep(ctx, "C03", "C15"), structs=("OligoCommand",))
    c15.cli_arm_dep(ctx, "C03", ("Oligo",), presets=True)      # -H reaches set_header, -p reaches set_delim with its delimiter
    from . import c17
    for path_, who_ in (("composition::oligo::OligoComputer::vectorise_mmap", "oligo::vectorise_mmap"),
                        ("composition::oligo::OligoComputer::vectorise_batch", "oligo::vectorise_batch")):
        fw_ = ctx.view(path_)
        if fw_ is not None:
            rule_output_always_created(dep(ctx, "C03", "C17"), "C17.W", fw_, who_)
    # the header line stays intact in the mapped file: rows start after its byte length, the file is sized with it
    from . import c05, c14
    fm_ = ctx.view(c05.MMAP)
    if fm_ is not None:
        c05.offset_rule(dep(ctx, "C03", "C05"), fm_)
        c14.size_rule(dep(ctx, "C03", "C14"), fm_)
        c14.writer_rule(dep(ctx, "C03", "C14"), fm_)      # .. and is copied byte for byte (k = 6, 7: longer than a page)
    # "the header matches the columns" presupposes that the header line is there whenever it was asked for: written
    # once, under `self.header` alone, on every normally-ending path of both writers
    fb_ = ctx.view(c05.BATCH)
    if fb_ is not None and fm_ is not None:
        c05.header_rule(dep(ctx, "C03", "C05"), fb_, fm_)


def header_line_rule(ctx):
    """header line == get_header().join(&delim) + "\\n" in the batch and the mmap path (however the string is assembled)"""
    want = [("term", ("call", "alloc::slice::<impl [T]>::join",
                      ("call", "composition::oligo::OligoComputer::get_header", ("self",)), SF("delim"))), ("lit", "\n")]
    for path in ("composition::oligo::OligoComputer::vectorise_batch",
                 "composition::oligo::OligoComputer::vectorise_mmap"):
        fv = ctx.need("C03.L", path)
        if fv is None:
            continue
        cands = []
        for lid, b in fv.binds.items():
            if b["name"] == "header" and b["val"][0] in ("node", "uninit"):
                cands.append(string_pieces(fv, ("local", b["name"], lid)))
            elif (b.get("ty") or "").endswith("string::String") and b["val"][0] in ("node", "uninit"):
                # whatever it is called: a String local whose value mentions get_header()
                ps_ = string_pieces(fv, ("local", b["name"], lid))
                if any(p_[0] == "term" and contains(p_[1], lambda s_: s_[0] == "call" and s_[1].endswith("::get_header")) for p_ in ps_):
                    cands.append(ps_)
        # a mutable `header` assigned later: take the assigned value
        for n in fv.nodes:
            if n.get("k") == "assign" and n["l"].get("k") == "local" and n["l"]["name"] == "header":
                cands.append(string_pieces(fv, fv.term(n["r"])))
        # or an `if self.header { X } else { String::new() }` initialiser
        more = []
        for ps in cands:
            if len(ps) == 1 and ps[0][0] == "term" and ps[0][1][0] == "if" and ps[0][1][1] == SF("header"):
                more.append(string_pieces(fv, ps[0][1][2]))
        cands += more

        def norm(ps):
            return [("term", ("call", "join") + p[1][2:]) if p[0] == "term" and p[1][0] == "call" and p[1][1].endswith("::join")
                    else p for p in ps]
        hit = [ps for ps in cands if norm(ps) == norm(want)]
        ctx.check("C03.L", "%s:header_line" % path.split("::")[-1], len(hit) >= 1,
                  "header line = get_header().join(delim) + \"\\n\"",
                  "header line is not get_header().join(&self.delim) followed by a newline (found %s)"
                  % [[(p[0], show(p[1]) if p[0] == "term" else p[1]) for p in ps] for ps in cands][:3], fv.fn["sp"])
