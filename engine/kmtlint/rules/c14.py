"""C14 — unchecked indexing and memory-mapped writes always stay inside their buffers."""
from .common import *
from . import c03, c05, c01
from ..core import sym_paths

EXPLANATION = (
    "(U) every call resolving to get_unchecked(_mut) in workspace code must match one accepted in-bounds "
    "provenance (J1 rank map indexed by min(f,r) of a generator built with the k the map was built "
    "with; J2 bucket of kcount entries indexed by a value loaded from the rank map; J3 histogram of "
    "bin_count entries indexed by min(_, bin_count-1); J4 partition table of n_parts entries indexed by "
    "_ % n_parts); (V) the fields those provenances rely on are private and written only by their "
    "constructors; (L) the rank table has 4^k entries and stores enumerate indices of the vector whose "
    "length is the count; (R) the forward register is masked with 2^(2k)-1 on every update; (W) write_at "
    "is called only from vectorise_mmap and the writer covers the whole mapping; (P) the per-record size "
    "term of the mapping and the length of the row string are the same polynomial over kcount and "
    "|delim|; (O) offset = len(ROW)*n + len(HEADER), mapped size = seq_count*row + len(HEADER); (A) the "
    "mmap path is reachable only under norm. Assumption (not decided): a value in [0,1] printed with "
    "P decimals occupies P+2 bytes.")
ASSUMPTIONS = ["a normalised value in [0,1] printed with P decimals occupies exactly P+2 bytes",
               "memmap2 maps exactly set_len(size) bytes"]

MMAP = c05.MMAP
OWNERS = [
    ("composition::oligo::OligoComputer", "composition::oligo::OligoComputer::new", ["pos_map", "pos_kmer", "kcount", "ksize"], []),
    ("composition::oligocgr::OligoCgrComputer", "composition::oligocgr::OligoCgrComputer::new", ["pos_map", "kcount", "ksize", "kmers"], []),
    ("pybindings::oligo::OligoComputer", "pybindings::oligo::OligoComputer::new", ["pos_map", "pos_kmer", "kcount", "ksize"], []),
    ("coverage::CovComputer", "coverage::CovComputer::new", ["bin_count", "ksize"], []),
    ("counter::CountComputer", "counter::CountComputer::new", ["n_parts", "ksize"], ["counter::CountComputer::init"]),
]


def run(ctx):
    provenance_rule(ctx)
    ownership_rule(ctx)
    c03.maps_rules(ctx, "C14.L")
    for ctor, adt, roles in c03.POSMAP_OWNERS:
        c03.rule_posmap_ctor(ctx, "C14.U", ctor, adt, roles)
    fnew, fnext = ctx.need("C14.R", c01.NEW), ctx.need("C14.R", c01.NEXT)
    if fnew is not None and fnext is not None:
        rule_geometry(ctx, "C14.R", fnew, c01.ADT, "mask", "shift", "ksize", [])
        rule_register_updates(ctx, "C14.R", fnext, "KmerGenerator", c01.TABLE, c01.REV, "fval", "rval", "len", "mask", "shift")
    fm = ctx.need("C14.P", MMAP)
    if fm is not None:
        writer_rule(ctx, fm)
        size_rule(ctx, fm)
        c05.selection_rule(ctx, fm, "C14.A")
        rule_taken_reaches(ctx, "C14.T", fm, "vectorise_mmap",
                           lambda n: n.get("k") == "mcall" and cname(n) == "ktio::mmap::MMWriter::write_at",
                           "row write (every row of the mapping is written: no byte left NUL)")
        stats_every_record(ctx, "C14.O")
        rule_spawn_count(ctx, "C14.T", fm, "vectorise_mmap")
    mmap_open_rule(ctx)
    # the mapping is sized from the count of the SAME stream the rows are later read from (same opener: multi-member
    # gzip, stdin): a sizing pass that sees fewer records puts the last rows at or past the end of the mapping
    if fm is not None:
        c05.stats_rule(dep(ctx, "C14", "C05"), fm)
    # row offsets are row_len * n: the reader numbers records 0, 1, 2 .. in both formats
    c05.ordinal_rule(dep(ctx, "C14", "C05"), "C05.N")
    # file size == header + records x row length needs the mapped file truncated and re-sized on every run
    from . import c17, c15
    c17.open_rules(dep(ctx, "C14", "C17"))
    fmw_ = ctx.view(MMAP)
    if fmw_ is not None:
        rule_output_always_created(dep(ctx, "C14", "C17"), "C17.W", fmw_, "oligo::vectorise_mmap")   # 0 records: header only
    from . import c06
    c06.reader_deps(ctx, "C14")           # "records" in the size equation = what the statistics pass and the reader agree on
    # fixed-width rows assume finite values: the divisor guard (max(1, total)) is part of this property's argument
    fo = ctx.view("composition::oligo::OligoComputer::vectorise_one")
    if fo is not None:
        acc_family(dep(ctx, "C14", "C04"), "C04.A", fo, "composition::oligo::vectorise_one", ("param", param_index(fo, "seq")), SF("norm"))
    # every row is written only if at least one worker is spawned: the CLI must not hand 0 to set_threads
    fcli = ctx.view(c15.CLI, c15.UNIT)
    if fcli is not None:
        c15.flow_rule(dep(ctx, "C14", "C15"), fcli)
    fnew = ctx.view("composition::oligo::OligoComputer::new")
    if fnew is not None:
        lit = struct_literal(fnew, "composition::oligo::OligoComputer")
        t = struct_fields(fnew, lit).get("threads") if lit else None
        ctx.check("C14.W", "OligoComputer::new:threads_default", t == ("call", "rayon::current_num_threads"),
                  "default worker count = rayon::current_num_threads() (>= 1)",
                  "default `threads` is `%s`; with 0 workers no row of the mapping is written" % (show(t) if t else "?"),
                  line_of(lit) if lit else fnew.fn["sp"])


def provenance_rule(ctx):
    n = 0
    counts = {"J1": 0, "J2": 0, "J3": 0, "J4": 0}
    for fv in ctx.all_views():
        k_in_fn = 0
        for c in fv.nodes:
            if c.get("k") != "mcall" or cname(c).split("::")[-1] not in ("get_unchecked", "get_unchecked_mut"):
                continue
            n += 1
            k_in_fn += 1
            recv, idx = fv.term(c["recv"]), fv.term(c["args"][0])
            j, why = justify(fv, recv, idx)
            if j:
                counts[j] += 1
            ctx.check("C14.U", "%s:unchecked@%d" % (fv.path, k_in_fn), j is not None,
                      "%s: %s[%s]" % (j, show(recv)[:60], show(idx)[:80]),
                      "unchecked access `%s[%s]` matches no accepted in-bounds justification (%s)"
                      % (show(recv), show(idx), why), line_of(c))
    if n < 8:
        ctx.fail("C14.U", "unchecked:floor", "expected the 8 confirmed unchecked accesses, found %d — a site disappeared "
                 "or the extraction lost it" % n)
    ctx.notes.append("unchecked sites by justification: %s" % counts)


def canonical_of_generator(t, ksize_term):
    """t == min(item.0, item.1) over KmerGenerator::new(_, ksize_term)"""
    if t[0] != "bin" or t[1] != "min":
        return False
    a, b = t[2], t[3]
    if a[0] != "proj" or b[0] != "proj" or {a[1], b[1]} != {0, 1} or a[2] != b[2]:
        return False
    it = a[2]
    return it[0] == "item" and it[1][0] == "call" and it[1][1] == GEN_NEW and it[1][3] == ksize_term


def alloc_of(fv, recv):
    """allocation term behind a local / Arc"""
    t = recv
    if t[0] == "local":
        b = fv.binds.get(t[2])
        if b and b["val"][0] == "node":
            t = fv.term(b["val"][1])
    while t[0] == "call" and t[1].endswith("Arc::new") and len(t) == 3:
        t = t[2]
        if t[0] == "local":
            b = fv.binds.get(t[2])
            if b and b["val"][0] == "node":
                t = fv.term(b["val"][1])
    return t


def justify(fv, recv, idx):
    # J1
    if recv == SF("pos_map"):
        if canonical_of_generator(idx, SF("ksize")):
            return "J1", ""
        return None, "rank map must be indexed by min(fwd, rev) of KmerGenerator::new(_, self.ksize)"
    al = alloc_of(fv, recv)
    if zero_vec_len(al, True) is not None:
        size = zero_vec_len(al, True)
        if size == SF("kcount"):
            ok = is_gu(idx, False) and idx[2] == SF("pos_map") and canonical_of_generator(idx[3], SF("ksize"))
            return ("J2", "") if ok else (None, "a kcount-sized bucket must be indexed by a value loaded from self.pos_map")
        if size == SF("bin_count"):
            clamp = mk_bin("-", SF("bin_count"), L(1))
            ok = idx[0] == "bin" and idx[1] == "min" and clamp in (idx[2], idx[3])
            return ("J3", "") if ok else (None, "a bin_count-sized histogram must be indexed by min(_, self.bin_count - 1)")
        if size == SF("n_parts"):
            ok = idx[0] == "bin" and idx[1] == "%" and idx[3] == SF("n_parts")
            return ("J4", "") if ok else (None, "the partition table must be indexed by _ % self.n_parts")
        return None, "buffer of `%s` entries is not in the justification table" % show(size)
    return None, "receiver `%s` is not a recognised buffer" % show(al)


def ownership_rule(ctx):
    for adt, ctor, fields, extra_writers in OWNERS:
        a = ctx.prog.adts.get(adt)
        if a is None:
            ctx.fail("C14.V", "%s:anchor" % adt, "struct %s not found" % adt)
            continue
        fdefs = {f["name"]: f for f in a["variants"][0]["fields"]}
        for f in fields:
            fd = fdefs.get(f)
            ctx.check("C14.V", "%s.%s:private" % (adt, f), fd is not None and not fd["vis"].startswith("Public"),
                      "%s is private" % f, "field `%s` of %s is %s: code outside the module could break the "
                      "in-bounds invariant" % (f, adt, fd["vis"] if fd else "missing"), a["sp"])
        writers = set()
        sites = {}
        for fv in ctx.all_views():
            for n in fv.nodes:
                k = n.get("k")
                if k in ("assign", "assignop") and n["l"].get("k") == "field" and n["l"].get("adt") == adt \
                        and n["l"]["name"] in fields:
                    writers.add((fv.path, n["l"]["name"]))
                    sites[(fv.path, n["l"]["name"])] = n
                if k == "addr" and n.get("mut") and n["e"].get("k") == "field" and n["e"].get("adt") == adt \
                        and n["e"]["name"] in fields:
                    writers.add((fv.path, n["e"]["name"]))
                    sites[(fv.path, n["e"]["name"])] = n
                if k == "struct" and norm_path(n.get("adt", "")) == adt and fv.path != ctor:
                    writers.add((fv.path, "<literal>"))
                    sites[(fv.path, "<literal>")] = n
        allowed = set((w, f) for w in extra_writers for f in ("n_parts",))
        bad = sorted(w for w in writers if w not in allowed)
        ctx.check("C14.V", "%s:written_only_by_ctor" % adt, not bad,
                  "invariant fields of %s written only by %s" % (adt.split("::")[-1], [ctor.split("::")[-1]] + [e.split("::")[-1] for e in extra_writers]),
                  "invariant field(s) written outside the constructor: %s" % bad, line_of(sites[bad[0]]) if bad else None)
    # count_chunk takes &self (cannot change n_parts while the table exists)
    fc = ctx.view("counter::CountComputer::count_chunk")
    if fc is not None:
        pt = fc.fn.get("param_tys", [""])[0]
        ctx.check("C14.V", "count_chunk:shared_self", pt.startswith("&") and not pt.startswith("&mut"),
                  "count_chunk borrows self immutably", "count_chunk takes `%s`" % pt, fc.fn["sp"])


def writer_rule(ctx, fm):
    callers = {}
    for fv in ctx.all_views():
        ws = [n for n in fv.nodes if n.get("k") in ("call", "mcall") and cname(n) == "ktio::mmap::MMWriter::write_at"]
        if ws:
            callers[fv.path] = len(ws)
    ctx.check("C14.W", "write_at:callers", callers == {MMAP: 2}, "write_at is called only from vectorise_mmap (2 sites)",
              "MMWriter::write_at is called from %s; expected only the header and the row site of vectorise_mmap" % callers, None)
    fw = ctx.view("ktio::mmap::MMWriter::write_at")
    ctx.check("C14.W", "write_at:unsafe_fn", fw is not None and fw.fn.get("unsafe") is True, "write_at is an unsafe fn",
              "MMWriter::write_at is no longer `unsafe fn`", fw.fn["sp"] if fw else None)
    news = fm.calls_to("ktio::mmap::MMWriter::new")
    ok = len(news) == 1
    if ok:
        a = fm.term(news[0]["args"][0])
        src = a[1] if a[0] == "index" else ("none",)
        if src[0] == "local":
            b = fm.binds.get(src[2])
            src = fm.term(b["val"][1]) if b and b["val"][0] == "node" else src
        ok = a[0] == "index" and a[2][0] == "struct" and a[2][1].endswith("RangeFull") and \
            contains(src, lambda s: s[0] == "call" and s[1] == "ktio::mmap::mmap_file_for_writing")
    ctx.check("C14.W", "vectorise_mmap:whole_mapping", ok, "the writer covers the whole mapping (&mut mmap[..])",
              "MMWriter::new does not receive the whole mapping `&mut mmap[..]`", line_of(news[0]) if news else fm.fn["sp"])
    # write_at body: copy of data.len() elements to slice[pos]
    if fw is not None:
        cp = fw.calls_to("std::intrinsics::copy_nonoverlapping", "core::intrinsics::copy_nonoverlapping",
                         "std::ptr::copy_nonoverlapping", "core::ptr::copy_nonoverlapping")
        ok = len(cp) == 1
        if ok:
            a = [fw.term(x) for x in cp[0]["args"]]
            dp, pp = ("param", param_index(fw, "data")), ("param", param_index(fw, "pos"))
            ok = is_len_of(a[2], dp) and contains(a[1], lambda s: s == ("index", SF("slice"), pp)) and contains(a[0], lambda s: s == dp)
        ctx.check("C14.W", "write_at:copy", ok, "copies data.len() elements to slice[pos]",
                  "write_at no longer copies exactly data.len() elements starting at slice[pos]", fw.fn["sp"])


def row_facts(fm):
    """(row format term, precision, delim term, literal tail length) of the row written by the workers"""
    rows = [w for w in c05.write_at_calls(fm) if fm.in_closure_passed_to(w, is_spawn) is not None]
    if len(rows) != 1:
        return None
    data = as_format_row(fm, fm.term(rows[0]["args"][0]))
    if data[0] != "format":
        return None
    lits = sum(len(p[1].encode()) for p in data[1] if p[0] == "lit")
    args = [p for p in data[1] if p[0] == "arg"]
    if len(args) != 1:
        return None
    j = data[2][0]
    if not (j[0] == "call" and j[1].endswith("::join") and len(j) == 4):
        return None
    delim = j[3]
    root = fm.enclosing(rows[0], ("closure",))
    vals = [(n, ft) for n, ft in formats_in(fm, root) if len(ft[1]) == 1 and ft[1][0][0] == "arg"]
    if len(vals) != 1:
        return None
    prec = vals[0][1][1][0][3]
    pv = prec[1] if prec and prec[0] == "lit" else (prec[1][1] if prec and prec[1][0] == "lit" else None)
    # how many numbers per row: the vector comes from vectorise_one (kcount entries, C04 bucket rule)
    return {"row": data, "prec": pv, "delim": delim, "lits": lits, "site": rows[0]}


def size_rule(ctx, fm):
    rf = row_facts(fm)
    if rf is None or rf["prec"] is None:
        ctx.fail("C14.P", "vectorise_mmap:row_shape", "cannot read the row's shape (numbers of fixed precision joined by a "
                 "delimiter plus literal tail)", fm.fn["sp"])
        return
    paths = sym_paths(fm, fm.body)
    view = paths[0].view if paths else fm
    calls = fm.calls_to("ktio::mmap::mmap_file_for_writing")
    if len(calls) != 1:
        ctx.fail("C14.P", "vectorise_mmap:mapping", "expected one mmap_file_for_writing call", fm.fn["sp"])
        return
    size_arg = view.term(calls[0]["args"][1])
    delim = rf["delim"]

    def sym(t):
        if t == SF("kcount"):
            return "kcount"
        if is_len_of(t, delim):
            return "|delim|"
        if t[0] == "field" and t[2] == "seq_count":
            return "records"
        if t[0] == "call" and t[1].endswith("::len"):
            return "len(%s)" % ("HEADER" if contains(t[2], lambda s: s[0] == "call" and s[1].endswith("get_header")) else show(t[2]))
        return show(t)
    num = rf["prec"] + 2
    exp_row = {("kcount",): num, ("kcount", "|delim|"): 1, ("|delim|",): -1, (): rf["lits"]}
    checked = 0
    from ..core import subst_plain

    def header_cases(val, conds):
        """[(value, header_on)]: the path condition decides, or a conditional header value is split on self.header"""
        ifs = [s_ for s_ in subterms(val) if s_[0] == "if" and s_[1] == SF("header")]
        if any(t == SF("header") for t, pol, _ in conds) or not ifs:
            return [(val, any(t == SF("header") and pol for t, pol, _ in conds))]
        out = []
        for on in (True, False):
            v = val
            for it in ifs:
                v = subst_plain(v, {it: it[2] if on else it[3]})
            out.append((v, on))
        return out

    def zero_empty(v):
        """len(String::new()) == 0"""
        for s_ in list(subterms(v)):
            if s_[0] == "call" and s_[1].endswith("::len") and len(s_) == 3 and s_[2][0] == "call" and s_[2][1].endswith("String::new"):
                v = subst_plain(v, {s_: L(0)})
        return v
    cases = []
    for sp in paths:
        val = sp.state.get(size_arg) if size_arg[0] == "local" else None
        if val is None or sp.exit[0] == "diverge":
            continue
        cases.extend(header_cases(val, sp.conds))
    for val, hdr_on in cases:
        val = zero_empty(val)
        pp = poly(val, ctx.prog.consts, sym)
        # expected: records * row (+ len(HEADER) when the header is on)
        exp = {}
        for m, c in exp_row.items():
            exp[tuple(sorted(m + ("records",)))] = c
        if hdr_on:
            exp[("len(HEADER)",)] = 1
        checked += 1
        tag = "header_on" if hdr_on else "header_off"
        ctx.check("C14.P", "vectorise_mmap:mapped_size:%s" % tag, pp == exp,
                  "mapped size = records·(kcount·%d + (kcount-1)·|delim| + %d)%s" % (num, rf["lits"], " + len(HEADER)" if hdr_on else ""),
                  "mapped size normalises to `%s` but every row written is %d-byte numbers joined by the delimiter plus %d "
                  "literal byte(s), i.e. records·(kcount·%d + (kcount-1)·|delim| + %d)%s = `%s`: with a delimiter that is "
                  "not exactly one byte, rows run past the mapping or leave unwritten bytes"
                  % (pshow(pp), num, rf["lits"], num, rf["lits"], " + len(HEADER)" if hdr_on else "", pshow(exp)),
                  line_of(calls[0]))
    if checked < 2:
        ctx.fail("C14.P", "vectorise_mmap:mapped_size:floor", "could not follow the size term on both header paths "
                 "(%d of 2)" % checked, line_of(calls[0]))
    # offset polynomial (shared with C05.O)
    c05.offset_rule(ctx, fm, "C14.O")


def mmap_open_rule(ctx):
    mmap_open_rule_as(ctx, "C14.M")


def mmap_open_rule_as(ctx, R):
    fv = ctx.need(R, "ktio::mmap::mmap_file_for_writing")
    if fv is None:
        return
    sl = [n for n in fv.nodes if n.get("k") == "mcall" and cname(n).endswith("File::set_len")]
    mp = [n for n in fv.nodes if n.get("k") == "mcall" and cname(n).endswith("map_mut")]
    ok = len(sl) == 1 and len(mp) == 1 and fv.term(sl[0]["args"][0]) == ("param", param_index(fv, "size")) \
        and fv.term(sl[0]["recv"]) == fv.term(mp[0]["args"][0])
    if ok:
        order = [n for n in fv.nodes if n is sl[0] or n is mp[0]]
        ok = order[0] is sl[0]
    ctx.check(R, "mmap_file_for_writing:set_len_then_map", ok, "file.set_len(size) precedes map_mut(&file)",
              "the mapping is not created from the file after `set_len(size as u64)`", fv.fn["sp"])



def counts_each_item(fv, loop):
    """the loop body counts its items: an unconditional `c += 1`, or `c = idx + 1` with idx the enumerate index"""
    it = fv.term(loop["iter"])
    item = ("item", it)
    for a in walk(loop["body"]):
        if a.get("k") == "assignop" and a["op"] == "+=" and fv.term(a["r"]) == L(1) and not fv.guards_within(a, loop):
            return True
        if a.get("k") == "assign" and it[0] == "call" and it[1].endswith("Iterator::enumerate") \
                and poly(fv.term(a["r"])) == poly(mk_bin("+", ("proj", 0, item), L(1))) and not fv.guards_within(a, loop):
            return True
    return False


def stats_every_record(ctx, rule):
    """the sizing pass counts every record the iterator will deliver: seq_stats loops are branch-free"""
    fv = ctx.need(rule, "ktio::seq::Sequences::seq_stats")
    if fv is None:
        return
    loops = [l for l in fv.nodes if l.get("k") == "for"]
    bad = [x for l in loops for x in walk(l["body"]) if x.get("k") in ("if", "match", "continue", "break", "ret")]
    counted = [l for l in loops if counts_each_item(fv, l)]
    ctx.check(rule, "seq_stats:counts_every_record", len(loops) == 2 and not bad and len(counted) == 2,
              "seq_stats counts each record of both formats unconditionally",
              "seq_stats skips or conditionally counts records (%s): seq_count would differ from the number of records the "
              "iterator delivers, so the mapped file is sized for fewer/more rows than are written"
              % ("`%s` in the counting loop" % bad[0].get("k") if bad else "%d loops / %d counting" % (len(loops), len(counted))),
              line_of(bad[0]) if bad else fv.fn["sp"])
