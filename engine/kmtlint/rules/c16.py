"""C16 — every subcommand ends cleanly with one row per record on degenerate input."""
from .common import *
from . import minimiser, c10, c01
from ..core import sym_paths

EXPLANATION = (
    "General panic freedom is not decidable here; decided are the structural causes of failure on "
    "degenerate input, each over all sibling sites: (S) the first-byte format sniff on the buffer "
    "returned by fill_buf() never indexes it with a constant unless non-emptiness was tested (empty "
    "input); (F) all four batch loops flush their tail whenever the buffer is non-empty (records "
    "without bases); (U) a window derived from a record length is clamped to >= m (records shorter "
    "than m with w = 0); (N) neither minimiser iterator can emit the u64::MAX placeholder, and end of "
    "input is run-aware; (Z) every normalisation divides by max(1, total) (records without valid "
    "windows); (E) all three generators test exhaustion before reading seq[pos] (empty sequence).")
ASSUMPTIONS = ["other unwrap()/arithmetic sites are value-dependent and outside this rule set"]

SNIFFERS = ["composition::oligo::OligoComputer::vectorise_batch", "composition::cgr::CgrComputer::vectorise",
            "composition::oligocgr::OligoCgrComputer::vectorise"]
BATCHERS = [("composition::oligo::OligoComputer::vectorise_batch", "oligo::vectorise_batch"),
            ("composition::cgr::CgrComputer::vectorise", "cgr::vectorise"),
            ("composition::oligocgr::OligoCgrComputer::vectorise", "oligocgr::vectorise"),
            ("coverage::CovComputer::compute_coverages", "compute_coverages")]
NORMALISERS = [("composition::oligo::OligoComputer::vectorise_one", None),
               ("composition::oligocgr::OligoCgrComputer::seq_to_kmer", None),
               ("pybindings::oligo::OligoComputer::vectorise_one", "norm"),
               ("coverage::CovComputer::vectorise_one", None)]


def run(ctx):
    for path in SNIFFERS:
        sniff_rule(ctx, path)
    ctx.floor("C16.S", 3)
    for path, who in BATCHERS:
        fv = ctx.need("C16.F", path)
        if fv is not None:
            rule_flush_pairing(ctx, "C16.F", fv, who)
    # "exactly one row per input record": between the batch and the file no row is dropped, doubled or re-sent — the
    # batch's rows are collected in order and reach the sink once (a row buffer kept across flushes re-writes earlier rows)
    d5_ = dep(ctx, "C16", "C05")
    for path, who in BATCHERS:
        fv = ctx.view(path)
        if fv is not None:
            rule_ordered_collects(d5_, "C05.O", fv, 2 if who == "compute_coverages" else 1)
            rule_sink_sequential(d5_, "C05.O", fv, who)
    c10.window_rule(ctx, "C16.U")
    sentinel_rule(ctx)
    for path, normp in NORMALISERS:
        fv = ctx.need("C16.Z", path)
        if fv is None:
            continue
        tot = [(lid, b) for lid, b in fv.binds.items() if b["mut"] and b["val"][0] == "node" and fv.term(b["val"][1]) == L(0.0)]
        buck = [(lid, b) for lid, b in fv.binds.items() if b["mut"] and b["val"][0] == "node"
                and zero_vec_len(fv.term(b["val"][1]), True) is not None]
        if len(tot) != 1 or len(buck) != 1:
            ctx.fail("C16.Z", "%s:shape" % path, "total / bucket not found", fv.fn["sp"])
            continue
        tv = ("local", tot[0][1]["name"], tot[0][0])
        bv = ("local", buck[0][1]["name"], buck[0][0])
        norm_t = ("param", param_index(fv, normp)) if normp else SF("norm")
        normaliser(ctx, "C16.Z", fv, path.split("::")[0] + "::" + path.split("::")[-1], norm_t, tv, bv)
    exhaustion_rule(ctx)
    from .c14 import stats_every_record
    stats_every_record(ctx, "C16.Q")
    from . import c06, c17
    c06.reader_deps(ctx, "C16")
    c17.writers_rule(ctx, "C16.W")          # an empty input still produces its (empty) output file
    c17.open_rules(dep(ctx, "C16", "C17"))  # .. of exactly the computed size (0 records: 0 bytes, no filler byte)
    ctor_total_rule(ctx)
    subtraction_audit(ctx)
    domain_audit(ctx)
    refusal_audit(ctx)
    panic_audit(ctx, "C16.P")
    # records that end in an ambiguous base / are all ambiguous: the k-mer iterator's position discipline
    from . import c01, c07
    c01.run(dep(ctx, "C16", "C01"))
    # records that yield no k-mer at all: a pass that read records is a chunk, with its files, whatever it counted
    fcc_, fcn_ = ctx.view(c07.CHUNK), ctx.view(c07.COUNT)
    if fcc_ is not None and fcn_ is not None:
        c07.chunk_rule(dep(ctx, "C16", "C07"), fcn_, fcc_)
    # `min` ends cleanly for every thread count: workers take under the lock and write whole lines under the lock
    d10_ = dep(ctx, "C16", "C10")
    fs2_, fm2_ = ctx.view(c10.S2M), ctx.view(c10.M2S)
    for fv_ in (fs2_, fm2_):
        if fv_ is not None:
            rule_locked_take(d10_, "C10.L", fv_, 1)
            rule_spawn_count(d10_, "C10.L", fv_, fv_.path.split("::")[-1])
    if fs2_ is not None:
        c10.s2m_rules(d10_, fs2_)
    if fm2_ is not None:
        c10.m2s_rules(d10_, fm2_)
    # no k-mers at all (empty file, records shorter than k): the counts table is empty and must load as empty
    from . import c08
    fcov = ctx.view(c08.COV)
    if fcov is not None:
        c08.inputs_rule(dep(ctx, "C16", "C08"), fcov)
    c08.bin_rule(dep(ctx, "C16", "C08"))          # a k-mer absent from the table counts 0 (no panic on a missing key)
    # "every accepted option combination": accepted = the documented ranges, refused only where documented
    from . import c15
    c15.ranges_rule(dep(ctx, "C16", "C15"))
    fcli_ = ctx.view(c15.CLI, c15.UNIT)
    if fcli_ is not None:
        c15.refusal_rule(dep(ctx, "C16", "C15"), fcli_)
        c15.flow_rule(dep(ctx, "C16", "C15"), fcli_)
    # empty input on the mmap path: the mapping has length 0, so no unconditional write may touch it
    from . import c05
    fb, fm = ctx.view(c05.BATCH), ctx.view(c05.MMAP)
    if fb is not None and fm is not None:
        c05.header_rule(dep(ctx, "C16", "C05"), fb, fm)
    if fm is not None:
        rule_taken_reaches(dep(ctx, "C16", "C05"), "C05.T", fm, "vectorise_mmap",
                           lambda n: n.get("k") == "mcall" and cname(n) == "ktio::mmap::MMWriter::write_at", "row write")
    # "no sentinel or placeholder value is ever written as if it were data": a CGR point exists only for a byte of the
    # corner table (the marker moves to the midpoint with THAT byte's corner); a byte outside the table is refused, not
    # given a made-up corner
    from . import c11
    d11_ = dep(ctx, "C16", "C11")
    for path_, kind_ in c11.SIBLINGS:
        if ctx.view(path_) is not None:
            c11.midpoint_rule(d11_, "C11.M", "C11.E", path_, kind_)


def success_value(t):
    """value of a fallible expression on its success path: `try(match r { Err(_) => Err(..), Ok(v) => X })`,
    `match r { Ok(v) => X, Err(_) => return Err(..) }` or its if-let spelling -> X, with the leaves' Ok(..) removed when
    the whole went through `?` (an error arm leaves the function and chooses nothing)"""
    tried = False
    for _ in range(6):
        if t[0] == "try":
            t = t[1]
            tried = True
            continue
        if t[0] == "match":
            arms = [(p_, b_) for p_, b_ in t[2:] if not (p_[0] == "ptstruct" and p_[1].endswith("::Err"))]
            if len(arms) == 1 and arms[0][0][0] == "ptstruct" and arms[0][0][1].endswith("::Ok"):
                t = arms[0][1]
                continue
        if t[0] == "if" and t[1][0] == "iflet" and t[1][1][0] == "ptstruct" and t[1][1][1].endswith("::Ok") \
                and t[3][0] in ("ret", "none") :
            t = t[2]
            continue
        break
    if tried:
        return map_leaves(t, lambda x: x[2] if x[0] == "call" and x[1].endswith("::Ok") and len(x) == 3 else x)
    return t


def map_leaves(t, f):
    if t[0] == "if":
        return ("if", t[1], map_leaves(t[2], f), map_leaves(t[3], f))
    return f(t)


def sniff_rule(ctx, path):
    fv = ctx.need("C16.S", path)
    if fv is None:
        return
    who = path.split("::")[1] + "::" + path.split("::")[-1]
    fills = [n for n in fv.nodes if n.get("k") == "mcall" and cname(n).endswith("BufRead::fill_buf")]
    if len(fills) != 1:
        ctx.fail("C16.S", "%s:fill_buf" % who, "expected one fill_buf() sniff, found %d" % len(fills), fv.fn["sp"])
        return
    bad = None
    uses = 0
    for n in fv.nodes:
        if n.get("k") == "index" and contains(fv.term(n["e"]), lambda s: s[0] == "call" and s[1].endswith("BufRead::fill_buf")):
            uses += 1
            it = fv.term(n["i"])
            if it[0] == "lit" or it[0] == "struct":
                base = fv.term(n["e"])
                guarded = False
                for g, pol in fv.guards(n):
                    t = fv.term(g)
                    if is_nonempty_test(t, pol, base):
                        guarded = True
                if not guarded:
                    bad = n
    ctx.check("C16.S", "%s:first_byte" % who, bad is None,
              "the sniffed buffer is never indexed with a constant without a non-emptiness test (%d index uses)" % uses,
              "`%s` indexes the slice returned by fill_buf() with a constant and no emptiness test: an empty input "
              "(0 bytes) panics instead of producing an empty result; use first()/get(0)" % (show(fv.term(bad)) if bad else ""),
              line_of(bad) if bad else None)
    # the sniff still decides the format from the first byte = '>'
    # the format handed to Sequences::new is a two-way choice on the sniffed first byte: '>' -> Fasta, else Fastq
    news = fv.calls_to("ktio::seq::Sequences::new")
    ft = fv.term(news[0]["args"][0]) if news else ("none",)
    ft = success_value(ft)
    fmt = [n for n in fv.nodes if n.get("k") in ("if", "match") and fv.term(n) == ft]
    leaves = if_leaves(ft) if ft[0] == "if" else ([b for _, b in ft[2:]] if ft[0] == "match" else [])
    ok = len(news) == 1 and contains(ft, lambda s: s[0] == "call" and s[1].endswith("BufRead::fill_buf")) \
        and (contains(ft, lambda s: s == L(62)) or ("plit", 62) in [x for a in subterms(ft) for x in [a]]) \
        and sorted(leaves) == sorted([("ctor", "ktio::seq::SeqFormat::Fasta"), ("ctor", "ktio::seq::SeqFormat::Fastq")])
    if ok and ft[0] == "if":
        # polarity: the branch taken when the byte IS '>' yields Fasta
        c = ft[1]
        pos_is_fasta = ft[2] == ("ctor", "ktio::seq::SeqFormat::Fasta")
        is_eq = (c[0] == "bin" and c[1] == "==") or c[0] == "iflet"
        is_ne = c[0] == "bin" and c[1] == "!="
        ok = (is_eq and pos_is_fasta) or (is_ne and not pos_is_fasta)
    ctx.check("C16.S", "%s:sniff_table" % who, ok, "'>' -> Fasta, anything else -> Fastq",
              "the format sniff is no longer `first byte == '>' ? Fasta : Fastq`", line_of(fmt[0]) if fmt else fv.fn["sp"])


def sentinel_rule(ctx):
    """N: C09.S / C09.R on both generators, reported under C16 keys"""
    class Proxy:
        def __init__(self, ctx):
            self.ctx = ctx
        def __getattr__(self, k):
            return getattr(self.ctx, k)
    for which in ("plain", "kmers"):
        sub = SubCtx(ctx, keep=("S", "R"))
        minimiser.run(sub, "C16", which)


class SubCtx:
    """forward only selected rule letters of the shared minimiser rule set"""
    def __init__(self, ctx, keep):
        self._c = ctx
        self._keep = set("C16." + k for k in keep)
        self.prog = ctx.prog
        self.notes = ctx.notes

    def view(self, *a, **k):
        return self._c.view(*a, **k)

    def need(self, rule, path, unit=None):
        return self._c.need(rule if rule in self._keep else "C16.S", path, unit)

    def ok(self, rule, *a, **k):
        if rule in self._keep:
            self._c.ok(rule.replace("C16.S", "C16.N").replace("C16.R", "C16.N"), *a, **k)

    def fail(self, rule, *a, **k):
        if rule in self._keep:
            self._c.fail(rule.replace("C16.S", "C16.N").replace("C16.R", "C16.N"), *a, **k)

    def check(self, rule, key, cond, okd, faild, sp=None, nontrivial=True):
        if rule in self._keep:
            return self._c.check(rule.replace("C16.S", "C16.N").replace("C16.R", "C16.N"), key, cond, okd, faild, sp, nontrivial)
        return cond

    def floor(self, *a, **k):
        pass

    def all_views(self, *a, **k):
        return self._c.all_views(*a, **k)


def exhaustion_rule(ctx):
    for path in (c01.NEXT, minimiser.GENS["plain"]["next"], minimiser.GENS["kmers"]["next"]):
        fv = ctx.need("C16.E", path)
        if fv is None:
            continue
        iter_root, loop = iteration_node(fv)
        if loop is None:
            ctx.fail("C16.E", "%s:loop" % path, "main loop not found", fv.fn["sp"])
            continue
        paths = sym_paths(fv, iter_root)
        bad = [sp for sp in paths if not sp.conds or not minimiser.is_exhaust(sp.conds[0][0])]
        # no `seq.len() - 1` (underflows on an empty sequence) evaluated on any path
        under = []
        for sp in paths:
            for t, pol, node in sp.conds:
                if contains(t, lambda s: s[0] == "bin" and s[1] == "-" and is_len_of(s[2], SF("seq"))):
                    under.append(node)
        name = path.split("::")[2].split(" ")[0] if path.startswith("<") else path
        ctx.check("C16.E", "%s:exhaustion_first" % name, not bad and len(paths) >= 3,
                  "pos == seq.len() is tested before seq[pos] is read on all %d paths" % len(paths),
                  "a path of next() reads the sequence before testing exhaustion (empty sequence / read past the end)",
                  line_of(loop))
        ctx.check("C16.E", "%s:no_len_minus_one" % name, not under, "no `seq.len() - 1` in a path condition",
                  "next() evaluates `seq.len() - 1` in a condition: it underflows for an empty sequence unless dominated "
                  "by the exhaustion test, and re-creates the end-of-sequence special case", line_of(under[0]) if under else None)



def ctor_total_rule(ctx):
    """Generator constructors accept every 1 <= m <= w (w == m is produced by the w = 0 clamp): an assertion in
    `new` is allowed only if it is implied by that precondition."""
    for which in ("plain", "kmers"):
        g = minimiser.GENS[which]
        fv = ctx.need("C16.C", g["new"])
        if fv is None:
            continue
        w, m = ("param", param_index(fv, "wsize")), ("param", param_index(fv, "msize"))
        implied = {repr(mk_bin("<=", m, w)), repr(mk_bin("<=", L(1), m)), repr(mk_bin("<", L(0), m)),
                   repr(mk_bin("<=", m, L(31))), repr(mk_bin("<", m, L(32))), repr(mk_bin("<=", L(1), w)),
                   repr(mk_bin("<", L(0), w))}
        bad = None
        for n in fv.nodes:
            if n.get("k") == "if" and diverges(n["then"]) and n.get("else") is None:
                c = fv.term(n["cond"])
                # assert!(X) lowers to `if !X { panic }`
                x = c[2] if c[0] == "un" and c[1] == "!" else ("un", "!", c)
                if repr(x) not in implied:
                    bad = (n, x)
        ctx.check("C16.C", "%s::new:total" % g["name"], bad is None,
                  "no assertion in new() beyond the precondition 1 <= m <= w",
                  "new() asserts `%s`, which is not implied by 1 <= m <= w: the w = 0 mode passes w = max(len, m), so a "
                  "record of length <= m makes the worker panic" % (show(bad[1]) if bad else ""),
                  line_of(bad[0]) if bad else None)


# every unsigned subtraction of the workspace, keyed by its canonical term, with the reason it cannot underflow
AUDITED_SUBTRACTIONS = {
    "(param - 1)": "ksize/msize/wsize >= 1 by the option ranges (C15.R) / documented API precondition",
    "((param - param) + 1)": "buffer capacity w - m + 1 with m <= w (C10.U, C15.Z)",
    "(self.len - 1)": "only after len == ksize >= 1",
    "(self.m_val_l - 1)": "only after m_val_l >= msize >= 1",
    "(self.k_val_l - 1)": "only after k_val_l == wsize >= 1",
    "(self.buff_pos - 1)": "only when buff_pos != 0",
    "(len(self.buff) - 1)": "buffer is full (>= 1 element) on that path",
    "(self.wsize - self.msize)": "m <= w",
    "((self.wsize - self.msize) + 1)": "m <= w",
    "(self.pos - self.wsize)": "a full window has been read: pos >= wsize - 1 (evaluated as pos - wsize + 1)",
    "((self.pos - self.wsize) + 1)": "a full window has been read: pos + 1 >= wsize",
    "(self.current_record - 1)": "just incremented",
    "(self.bin_count - 1)": "bin_count >= 1 (C15.R: >= 5)",
    "(self.kcount - 1)": "kcount >= 1 (the canonical set is never empty)",
    "((1 << (2 * param)) - 1)": "mask 4^k - 1, 4^k >= 4",
    "(param - param)": "w - m with m <= w (first half of w - m + 1)",
    "(8 - 2)": "constant",
    "(NUMBER_SIZE - 2)": "constant",
}


def subtraction_audit(ctx):
    """A: every unsigned subtraction in workspace code is in the audited table above (after replacing parameters by
    `param`); a new subtraction on runtime sizes (record lengths, counts) is reported because it can underflow on
    degenerate input."""
    import re as _re
    seen = {}
    for fv in ctx.all_views(lambda f: not f["npath"].startswith(("kmertools::", "<kmertools::", "pykmertools::", "<pybindings::"))
                            or f["npath"] == "kmertools::args::cli"):
        if fv.fn.get("mac"):
            continue
        for n in fv.nodes:
            if n.get("mac"):
                continue
            if (n.get("k") == "bin" and n.get("op") == "-") or (n.get("k") == "assignop" and n.get("op") == "-="):
                ty = n["l"].get("ty", "")
                if ty not in ("u8", "u16", "u32", "u64", "usize", "u128"):
                    continue
                t = fv.term(n) if n["k"] == "bin" else mk_bin("-", fv.term(n["l"]), fv.term(n["r"]))
                if t[0] == "lit":
                    continue      # constant-folded
                s_ = _re.sub(r"param#\d+", "param", show(t))
                seen.setdefault(s_, (fv.path, n))
    extra = sorted(k for k in seen if k not in AUDITED_SUBTRACTIONS)
    for k in extra:
        fp, n = seen[k]
        ctx.fail("C16.A", "%s:unaudited_subtraction:%s" % (fp, k),
                 "unsigned subtraction `%s` in %s is not in the audited table: on degenerate input (empty file, records "
                 "shorter than k, zero counts) it can underflow — panic in debug builds, absurd sizes in release builds"
                 % (k, fp), line_of(n))
    ctx.check("C16.A", "subtractions:audited", not extra, "%d distinct unsigned subtraction terms, all audited" % len(seen),
              "%d unaudited subtraction term(s)" % len(extra), None)



# std functions that panic when an argument is degenerate (zero, empty, min > max, index == len): which argument matters
PARTIAL_FNS = {
    "clamp": "min <= max", "chunks": "size != 0", "chunks_exact": "size != 0", "chunks_mut": "size != 0",
    "rchunks": "size != 0", "par_chunks": "size != 0", "par_chunks_exact": "size != 0", "windows": "size != 0",
    "par_windows": "size != 0", "step_by": "step != 0", "split_at": "mid <= len", "split_at_mut": "mid <= len",
    "split_off": "at <= len", "copy_from_slice": "equal lengths", "clone_from_slice": "equal lengths",
    "swap_remove": "index < len", "rotate_left": "k <= len", "rotate_right": "k <= len", "swap": "indices < len",
    "gen_range": "non-empty range", "div_euclid": "divisor != 0", "rem_euclid": "divisor != 0",
    "ilog2": "argument != 0", "ilog10": "argument != 0", "ilog": "argument != 0", "array_chunks": "size != 0",
}
AUDITED_PARTIAL_CALLS = {}      # "fn(args)" -> reason; empty on the pinned tree (no such call exists)


AUDITED_REFUSALS = {
    # (function, error) -- the property lets whole-sequence CGR refuse records with non-nucleotide bytes
    ("composition::cgr::CgrComputer::vectorise_one", "Err(to_string('Bad nucleotide, unable to proceed'))"),
    ("composition::oligocgr::OligoCgrComputer::vectorise_one", "Err(to_string('Bad nucleotide, unable to proceed'))"),
    ("pybindings::cgr::CgrComputer::vectorise_one", "Err(new_err('Bad nucleotide, unable to proceed'))"),
}


def refusal_audit(ctx):
    """U: an `Err(..)` built by the workspace's own code is a refusal.  Re-wrapping the error of a failed std call
    (`match r { Err(_) => return Err(msg), .. }`) refuses nothing new; any other one must be on the audited list --
    a fresh refusal ("no k-mers found", "empty table") turns a degenerate but well-formed input into an error, and
    the CLI unwraps `build_table()` / prints the error and produces no rows"""
    n_seen = 0
    for fv in ctx.all_views(lambda f: not f["npath"].startswith(("<kmertools::", "kmertools::", "pykmertools::"))):
        if fv.fn.get("mac"):      # (the CLI's own refusals are judged by C15.Z against the documented ranges)
            continue
        for n in fv.nodes:
            if n.get("k") != "call" or not cname(n).endswith("::Err") or n.get("mac"):
                continue
            n_seen += 1
            rewrap = False
            for g, pol in fv.guards(n):
                if g.get("k") == "letexpr":
                    pn = (g["pat"].get("path") or "").split("::")[-1]
                    if (pn == "Err" and pol) or (pn == "Ok" and not pol):
                        rewrap = True
            for g, pol in fv.guards(n):
                gt = fv.term(g)
                if gt[0] == "call" and gt[1].split("::")[-1] in ("is_err", "is_ok") and gt[1].startswith(("std::", "core::")):
                    if (gt[1].endswith("is_err") and pol) or (gt[1].endswith("is_ok") and not pol):
                        rewrap = True          # `if r.is_err() { return Err(msg) }`
            for a in fv.ancestors(n):
                if a.get("k") == "match":
                    for arm in a["arms"]:
                        if (arm["pat"].get("path") or "").endswith("::Err") and any(x is n for x in walk(arm["body"])):
                            rewrap = True
            key = (fv.path, show(fv.term(n)))
            ctx.check("C16.U", "%s:refusal:%s" % (fv.path, key[1][:60]), rewrap or key in AUDITED_REFUSALS,
                      "audited refusal / re-wrapped std error",
                      "%s builds `%s`: a refusal that is not on the audited list — a degenerate but well-formed input "
                      "(no records, no k-mers, empty table) that takes it ends in an error (the CLI unwraps or prints it) "
                      "instead of the empty / all-zero output" % (fv.path, key[1]), line_of(n))
    if n_seen < 3:
        ctx.fail("C16.U", "refusals:floor", "fewer explicit Err(..) constructions (%d) than the 3 audited ones" % n_seen)


AUDITED_DIVISORS = {
    # n_parts = max(threads (debug: 1), <estimate>) in CountComputer::init; threads >= 1 by the constructor default and the
    # CLI wiring (C15.F: set_threads only under threads > 0); C07.K table_len / route pin the field
    ("counter::CountComputer::count_chunk", "self.n_parts"),
}


def domain_audit(ctx):
    """D: a call to a std function that panics on a degenerate argument (`clamp(1, n)` with n = 0, `chunks(0)`,
    `windows(0)`, `step_by(0)`, `split_at(len + 1)` ..) must have that argument fixed by literals; a runtime size
    (record count, record length, thread count, k) in that position is reported: the degenerate inputs of this
    property are exactly the ones that make it 0."""
    n_seen = 0
    bad = []
    for fv in ctx.all_views(lambda f: not f["npath"].startswith(("<kmertools::", "pykmertools::", "<pybindings::"))):
        if fv.fn.get("mac"):
            continue
        for n in fv.nodes:
            if n.get("k") not in ("call", "mcall") or n.get("mac"):
                continue
            c = cname(n)
            last = c.split("::")[-1]
            if last not in PARTIAL_FNS or not (c.startswith(("std::", "core::", "alloc::", "rayon::", "rand::")) or "::" not in c):
                continue
            if last == "swap" and "mem::swap" in c:
                continue
            n_seen += 1
            args = [fv.term(a) for a in n.get("args", [])]
            lits = [a for a in args if a[0] == "lit" and isinstance(a[1], (int, float))]
            if last == "clamp":
                ok = len(lits) == 2 and lits[0][1] <= lits[1][1]
            elif last in ("copy_from_slice", "clone_from_slice", "split_at", "split_at_mut", "split_off", "swap_remove",
                          "rotate_left", "rotate_right", "swap", "gen_range"):
                ok = False
            else:
                ok = len(args) >= 1 and args[-1][0] == "lit" and isinstance(args[-1][1], int) and args[-1][1] != 0
            key = "%s(%s)" % (last, ", ".join(show(a) for a in args))
            if not ok and key not in AUDITED_PARTIAL_CALLS:
                bad.append((fv.path, key, PARTIAL_FNS[last], n))
    for fp, key, need, n in bad:
        ctx.fail("C16.D", "%s:partial_call:%s" % (fp, key),
                 "`%s` in %s panics unless %s, and its arguments are runtime values: on degenerate input (no records, empty "
                 "record, record shorter than k, zero counts) the call aborts the subcommand instead of producing the "
                 "empty / all-zero output" % (key, fp, need), line_of(n))
    # integer `/` and `%` panic on a zero divisor: the divisor is a non-zero literal or an audited, established-positive value
    INTS = ("u8", "u16", "u32", "u64", "u128", "usize", "i8", "i16", "i32", "i64", "i128", "isize")
    n_div = 0
    for fv in ctx.all_views(lambda f: not f["npath"].startswith(("<kmertools::", "pykmertools::", "<pybindings::"))):
        if fv.fn.get("mac"):
            continue
        for n in fv.nodes:
            if n.get("k") not in ("bin", "assignop") or n.get("op", "").rstrip("=") not in ("/", "%") or n.get("mac"):
                continue
            ty = n.get("ty") if n.get("k") == "bin" else (n["l"].get("ty") or "")
            if ty not in INTS:
                continue
            n_div += 1
            d = fv.term(n["r"])
            okd = (d[0] == "lit" and isinstance(d[1], int) and d[1] != 0) or d[0] == "bin" and d[1] == "max" and any(
                x[0] == "lit" and isinstance(x[1], int) and x[1] >= 1 for x in d[2:4]) \
                or (fv.path, show(d)) in AUDITED_DIVISORS
            ctx.check("C16.D", "%s:int_division:%s" % (fv.path, show(d)), okd, "divisor `%s` is never 0" % show(d),
                      "integer `%s %s` in %s: the divisor is a runtime value that is 0 on degenerate input (no records, "
                      "no bases, ..) and the division panics" % (n["op"], show(d), fv.path), line_of(n))
    if n_div < 3:
        ctx.fail("C16.D", "int_division:floor", "fewer integer divisions found (%d) than the 3 confirmed on the pinned tree" % n_div)
    ctx.check("C16.D", "partial_calls:audited", not bad,
              "%d call(s) to degenerate-argument-partial std functions, all with literal in-domain arguments" % n_seen,
              "%d call(s) whose in-domain condition depends on the input" % len(bad), None, nontrivial=False)
