"""C11 — whole-sequence CGR follows the chaos-game midpoint rule inside the square."""
from .common import *
from ..core import sym_paths

EXPLANATION = (
    "(T) the corner table literal of both cgr_maps copies is read from the typed program with locals "
    "resolved and compared exhaustively with the property's table (A a, C c, G g, T t, U u; nothing "
    "else) and the centre (S/2, S/2); (M) in the three sibling loops the marker update, composed "
    "symbolically per path, is ((corner.0+marker.0)/2, (corner.1+marker.1)/2) keyed by the byte itself, "
    "starting from the centre, and the updated marker is pushed once per byte; (E) on the map-miss path "
    "the function returns Err at once, pushing nothing; (C) constructors take both fields from one "
    "cgr_maps(vecsize as f64) call; (O) ordered collect, sequential sink, flush pairing and point text "
    "of the file writer. Does not decide floating-point values.")
ASSUMPTIONS = ["coordinates/containment follow from the midpoint term by arithmetic"]

MAPS = ["composition::cgr::cgr_maps", "composition::oligocgr::OligoCgrComputer::cgr_maps"]
SIBLINGS = [
    ("composition::cgr::CgrComputer::vectorise_one", "whole"),
    ("pybindings::cgr::CgrComputer::vectorise_one", "whole"),
    ("composition::oligocgr::OligoCgrComputer::vectorise_one", "kmer"),
]


def corner_spec(S):
    z = L(0.0)
    return {"A": (z, z), "C": (z, S), "G": (S, S), "T": (S, z), "U": (S, z)}


def run(ctx):
    # the corner-table functions are the ones the constructors actually call (the two private copies of the pinned
    # tree may be merged into one): each is judged by the table rule
    used = set()
    for ctor, adt in (("composition::cgr::CgrComputer::new", "composition::cgr::CgrComputer"),
                      ("pybindings::cgr::CgrComputer::new", "pybindings::cgr::CgrComputer"),
                      ("composition::oligocgr::OligoCgrComputer::new", "composition::oligocgr::OligoCgrComputer")):
        used.add(ctor_rule(ctx, "C11.C", ctor, adt))
    used.discard(None)
    for mp in sorted(used):
        table_rule(ctx, "C11.T", mp)
    ctx.floor("C11.T", 12 * max(1, len(used)))
    if not used:
        ctx.fail("C11.T", "maps:anchor", "no constructor takes its centre and corner table from a workspace function")
    for path, kind in SIBLINGS:
        midpoint_rule(ctx, "C11.M", "C11.E", path, kind)
    fv = ctx.need("C11.O", "composition::cgr::CgrComputer::vectorise")
    if fv is not None:
        rule_ordered_collects(ctx, "C11.O", fv, 1)
        rule_sink_sequential(ctx, "C11.O", fv, "cgr::vectorise")
        rule_flush_pairing(ctx, "C11.O", fv, "cgr::vectorise")
        point_text(ctx, "C11.O", fv, "cgr::vectorise", "({},{})", 2)
        error_discipline(ctx, "C11.E", fv, "cgr::vectorise", "composition::cgr::CgrComputer::vectorise_one")
        row_source(ctx, "C11.O", fv, "cgr::vectorise", "composition::cgr::CgrComputer::vectorise_one")
    from . import c06
    c06.reader_deps(ctx, "C11")
    from . import c15, c17
    c15.cli_arm_dep(ctx, "C11", ('Cgr',))
    c17.open_rules(dep(ctx, "C11", "C17"))
    rule_threads_default(ctx, "C11.O", "composition::cgr::CgrComputer")
    fw_ = ctx.view("composition::cgr::CgrComputer::vectorise")
    if fw_ is not None:
        rule_output_always_created(dep(ctx, "C11", "C17"), "C17.W", fw_, "cgr::vectorise")   # "length 0": no points, but a file


def table_rule(ctx, rule, path):
    fv = ctx.need(rule, path)
    if fv is None:
        return
    # the square size as an f64: the parameter itself, or — when the (private) function takes the integer and converts
    # it in its first statement — that conversion (the constructor rule accepts the matching call-site form only)
    pty0 = (fv.fn.get("param_tys") or ["f64"])[0]
    S = ("param", 0) if pty0 == "f64" else ("cast", "f64", ("param", 0))
    res = fv.term(fv.body.get("expr")) if fv.body.get("expr") else ("none",)
    arrays = [s for s in subterms(res) if s[0] == "array"]
    if res[0] == "tup" and len(res) == 3 and not arrays and res[2][0] == "local":
        # the map is a local filled by `for (k, v) in [ .. ] { map.insert(k, v); }`
        mlocal = res[2]
        for l in fv.nodes:
            if l.get("k") != "for":
                continue
            it = fv.term(l["iter"])
            arr = it if it[0] == "array" else next((s_ for s_ in subterms(it) if s_[0] == "array"), None)
            if arr is None:
                continue
            item = ("item", it)
            ins = [x for x in walk(l["body"]) if x.get("k") == "mcall" and cname(x).endswith("HashMap::insert")
                   and fv.term(x["recv"]) == mlocal]
            branchy = [x for x in walk(l["body"]) if x.get("k") in ("if", "match", "continue", "break", "ret")]
            if len(ins) == 1 and not branchy and [fv.term(a) for a in ins[0]["args"]] == [("proj", 0, item), ("proj", 1, item)]:
                arrays = [arr]
        others = [x for x in fv.nodes if x.get("k") == "mcall" and cname(x).endswith("HashMap::insert")]
        if len(others) != 1:
            arrays = []
    if res[0] != "tup" or len(res) != 3 or len(arrays) != 1:
        ctx.fail(rule, "%s:shape" % path, "cgr_maps no longer returns (centre, map built from one literal array)", fv.fn["sp"])
        return
    centre = res[1]
    half = ("bin", "/", S, L(2.0))
    ctx.check(rule, "%s:centre" % path, centre == ("tup", half, half), "centre = (S/2, S/2)",
              "centre is `%s`, expected (S/2, S/2) with S the parameter" % show(centre), fv.fn["sp"])
    got = {}
    for e in arrays[0][1:]:
        if e[0] == "tup" and len(e) == 3 and e[1][0] == "lit" and isinstance(e[1][1], int):
            ch = chr(e[1][1])
            if ch in got:
                ctx.fail(rule, "%s:dup_%s" % (path, ch), "letter %r appears twice in the corner table" % ch, fv.fn["sp"])
            got[ch] = e[2]
    spec = corner_spec(S)
    for base, (x, y) in spec.items():
        for ch in (base, base.lower()):
            v = got.get(ch)
            ctx.check(rule, "%s:corner_%s" % (path, ch), v == ("tup", x, y),
                      "%s -> (%s, %s)" % (ch, show(x), show(y)),
                      "corner of %r is %s, the property requires (%s, %s) with S = square size"
                      % (ch, show(v) if v else "missing", show(x).replace("param#0", "S"), show(y).replace("param#0", "S")),
                      fv.fn["sp"])
    extra = sorted(set(got) - set(c for b in spec for c in (b, b.lower())))
    ctx.check(rule, "%s:no_extra" % path, not extra, "no other byte has a corner",
              "bytes %s have a corner although the property rejects every byte outside ACGTU" % extra, fv.fn["sp"])


def midpoint_rule(ctx, rule, erule, path, kind):
    fv = ctx.need(rule, path)
    if fv is None:
        return
    who = path.split("::")[0] + "::" + path.split("::")[1] + "::" + path.split("::")[-1]
    loops = [l for l in fv.nodes if l.get("k") == "for"]
    # the byte loop is the innermost loop whose body consults cgr_map
    byte_loops = [l for l in loops if any(x.get("k") == "mcall" and cname(x).endswith("HashMap::get") for x in walk(l["body"]))
                  and not any(y.get("k") == "for" for y in walk(l["body"]))]
    if len(byte_loops) != 1:
        ctx.fail(rule, "%s:loop" % who, "expected one per-byte loop consulting the corner map, found %d" % len(byte_loops), fv.fn["sp"])
        return
    loop = byte_loops[0]
    paths = sym_paths(fv, loop["body"])
    items = (("item", paths[0].view.term(loop["iter"])), ("item", fv.term(loop["iter"]))) if paths else (("none",),)
    markers = [b for lid, b in fv.binds.items() if b["mut"] and b["ty"] == "(f64, f64)"]
    mids = [lid for lid, b in fv.binds.items() if b["mut"] and b["ty"] == "(f64, f64)"]
    if len(mids) != 1:
        ctx.fail(rule, "%s:marker" % who, "marker (mutable (f64,f64) local) not found", fv.fn["sp"])
        return
    mv = ("local", fv.binds[mids[0]]["name"], mids[0])
    init = fv.binds[mids[0]]["val"]
    it0 = fv.term(init[1]) if init[0] == "node" else ("none",)
    ctx.check(rule, "%s:start" % who, it0 == SF("cgr_center"), "marker starts at the centre",
              "marker starts at `%s`, expected self.cgr_center" % show(it0), line_of(init[1]) if init[0] == "node" else None)
    hit = [sp for sp in paths if sp.exit[0] in ("fall", "continue")]
    miss = [sp for sp in paths if sp.exit[0] == "ret"]
    ok = len(hit) == 1 and len(miss) == 1 and len(paths) == 2
    if not ok:
        ctx.fail(rule, "%s:paths" % who, "per-byte loop has %d paths (%d hit, %d miss); expected one hit and one miss path"
                 % (len(paths), len(hit), len(miss)), line_of(loop))
        return
    sp = hit[0]
    new = sp.state.get(mv)
    corner = None
    for t, pol, _ in sp.conds:
        if t[0] == "iflet" and pol:
            corner = ("variant", "Some", 0, t[2])
    key_ok = corner is not None and corner[3][0] == "call" and corner[3][1].endswith("HashMap::get") \
        and corner[3][2] == SF("cgr_map") and corner[3][3] in items
    ctx.check(rule, "%s:key" % who, key_ok, "corner = cgr_map[byte]",
              "the corner is looked up as `%s`, expected self.cgr_map.get(<the byte itself>)" % (show(corner[3]) if corner else "?"),
              line_of(loop))
    def coord(i):
        return ("bin", "/", mk_bin("+", ("proj", i, corner), ("proj", i, mv)), L(2.0))
    okm = corner is not None and new == ("tup", coord(0), coord(1))
    ctx.check(rule, "%s:midpoint" % who, okm, "marker' = ((corner.0+marker.0)/2, (corner.1+marker.1)/2)",
              "marker update is `%s`; expected the coordinate-wise midpoint ((corner.0 + marker.0)/2, (corner.1 + marker.1)/2)"
              % (show(new) if new else "<marker not updated>"), line_of(loop))
    pushes = [e for e in sp.effects if e[0] == "push"]
    if kind == "whole":
        okp = len(pushes) == 1 and new is not None and pushes[0][2] == new
        ctx.check(rule, "%s:push" % who, okp, "the updated marker is pushed once per base",
                  "per base the function pushes %s; expected exactly the updated marker" % [show(p[2]) for p in pushes], line_of(loop))
    else:
        ctx.check(rule, "%s:push" % who, not pushes, "k-mer mode pushes only the end point (outside the byte loop)",
                  "k-mer mode pushes inside the per-base loop", line_of(loop))
    # E: miss edge
    ms = miss[0]
    rt = ms.ret
    is_err = rt is not None and rt[0] == "call" and rt[1].endswith("::Err")
    ctx.check(erule, "%s:miss_is_error" % who, is_err and not ms.effects and not ms.state,
              "unknown byte -> Err immediately, nothing pushed",
              "on a byte without a corner the function %s; it must return Err at once and yield no coordinates"
              % ("returns `%s`" % show(rt) if rt is not None else "continues"), line_of(ms.exit[1]) if ms.exit[0] == "ret" else line_of(loop))
    ret_ty = fv.fn.get("ret", "")
    ctx.check(erule, "%s:result_type" % who, "Result<" in ret_ty, "returns a Result", "return type is %s" % ret_ty, fv.fn["sp"])
    # whole: sequence iterated completely, in order
    it = fv.term(loop["iter"])
    if kind == "whole":
        p0 = ("param", param_index(fv, "seq"))
        ok_it = it == p0 or (it[0] == "call" and it[1].split("::")[-1] in ("iter", "bytes", "into_iter") and it[2] == p0)
        ctx.check(rule, "%s:all_bases" % who, ok_it, "iterates every byte of the sequence in order",
                  "the byte loop iterates `%s`, expected seq.iter()" % show(it), line_of(loop))
        res = fv.term(fv.body.get("expr")) if fv.body.get("expr") else ("none",)
        okr = res[0] == "call" and res[1].endswith("::Ok") and pushes and res[2] == pushes[0][1]
        ctx.check(rule, "%s:result" % who, bool(okr), "Ok(points)", "returns `%s`" % show(res), fv.fn["sp"])


def ctor_rule(ctx, rule, ctor, adt):
    fv = ctx.need(rule, ctor)
    if fv is None:
        return
    lit = struct_literal(fv, adt)
    if lit is None:
        ctx.fail(rule, "%s:literal" % adt, "struct literal not found", fv.fn["sp"])
        return
    fs = struct_fields(fv, lit)
    c, m = fs.get("cgr_center"), fs.get("cgr_map")
    vp = param_index(fv, "vecsize")
    ok = c is not None and m is not None and c[0] == "proj" and m[0] == "proj" and c[1] == 0 and m[1] == 1 and c[2] == m[2] \
        and c[2][0] == "call" and ctx.prog.fn(c[2][1]) is not None
    if ok:
        cal = ctx.prog.fn(c[2][1])
        pty0 = (cal.get("param_tys") or ["f64"])[0] if isinstance(cal, dict) else "f64"
        # `cgr_maps(vecsize as f64)` for an f64 parameter, `cgr_maps(vecsize)` when the callee takes the integer and
        # converts it itself (the table rule then reads the table with `param as f64` as the square size)
        ok = c[2][2] == ("cast", "f64", ("param", vp)) if pty0 == "f64" else \
            (pty0 in ("usize", "u64", "u32") and c[2][2] == ("param", vp))
    ctx.check(rule, "%s:maps" % adt, ok, "centre and map from one %s(vecsize as f64)" % (c[2][1] if ok else "cgr_maps"),
              "cgr_center / cgr_map are `%s` / `%s`; expected the two components of one cgr_maps(vecsize as f64)"
              % (show(c) if c else "?", show(m) if m else "?"), line_of(lit))
    return c[2][1] if ok else None


def point_text(ctx, rule, fv, who, template, nargs):
    # read the row off its string value, however it is assembled (format! + join, or a String built in a loop)
    rows_t = find_rows(fv, None, ctx)
    n_point_formats = len([1 for n_, ft_ in formats_in(fv) if fmt_template(ft_).startswith("(")])
    if len(rows_t) == 1 and n_point_formats == 1:         # (a second place that renders points is judged below)
        _n, j, d = rows_t[0]
        clos = [s_ for s_ in subterms(j[2]) if s_[0] == "closure"]
        body = clos[0][1] if len(clos) == 1 else None
        v = ("cparam", 0)
        want = (("proj", 0, v), ("proj", 1, v)) if nargs == 2 else \
            (("proj", 0, ("proj", 0, v)), ("proj", 1, ("proj", 0, v)), ("proj", 1, v))
        okp = body is not None and body[0] == "format" and fmt_template(body) == template and body[2] == want
        if okp and d == L(" "):
            ctx.ok(rule, "%s:point_text" % who, "point text %s of the components in order" % template, line_of(_n))
            ctx.ok(rule, "%s:row_text" % who, "row = points joined by a space + newline", line_of(_n))
            return
    fm = [(n, ft) for n, ft in formats_in(fv) if fmt_template(ft).startswith("(")]
    ok = len(fm) == 1 and fmt_template(fm[0][1]) == template
    if ok:
        args = fm[0][1][2]
        if nargs == 2:
            ok = args == (("proj", 0, ("cparam", 0)), ("proj", 1, ("cparam", 0)))
        else:
            v = ("cparam", 0)
            ok = args == (("proj", 0, ("proj", 0, v)), ("proj", 1, ("proj", 0, v)), ("proj", 1, v))
    ctx.check(rule, "%s:point_text" % who, ok, "point text %s of the components in order" % template,
              "point text is `%s` with %s" % (fmt_template(fm[0][1]) if fm else "?", [show(a) for a in fm[0][1][2]] if fm else "?"),
              line_of(fm[0][0]) if fm else fv.fn["sp"])
    rows = [(n, ft) for n, ft in formats_in(fv) if len(ft[1]) == 2 and ft[1][1] == ("lit", "\n")]
    okr = len(rows) == 1 and rows[0][1][2][0][0] == "call" and rows[0][1][2][0][1].endswith("::join") and rows[0][1][2][0][3] == L(" ")
    ctx.check(rule, "%s:row_text" % who, okr, "row = points joined by a space + newline",
              "row is not `points.join(\" \")` + newline", line_of(rows[0][0]) if rows else fv.fn["sp"])



def row_source(ctx, rule, fv, who, one):
    """The points of a row are those of ONE walk over the WHOLE record: the per-record routine is called once per
    record, on the record's complete `seq` — a walk over pieces (`chunks`, a sub-slice, a filtered copy) restarts the
    marker at the centre in the middle of the record or changes which bases get a point."""
    calls = fv.calls_to(one)
    bad = None
    for c in calls:
        t = fv.term(c["args"][0]) if c.get("args") else ("none",)
        while t[0] in ("addr", "deref", "ref") and len(t) >= 2 and isinstance(t[-1], tuple):
            t = t[-1]
        if t[0] == "call" and t[1].split("::")[-1] in ("as_slice", "as_ref", "deref", "borrow") and len(t) == 3:
            t = t[2]
        whole = t[0] == "field" and "seq" in t[1:] and not contains(t, lambda s_: s_[0] == "index")
        clo = fv.enclosing(c, ("closure",))
        lp = fv.enclosing(c, ("for", "while", "loop"))
        inner_loop = lp is not None and clo is not None and any(x is lp for x in walk(clo))
        if not whole:
            bad = ("%s is called on `%s`, not on the record's whole `seq`" % (one.split("::")[-1], show(t)[:100]), c)
        elif inner_loop:
            bad = ("%s is called inside a loop within the per-record closure: a record is walked in several pieces, "
                   "each restarting at the centre" % one.split("::")[-1], c)
    ctx.check(rule, "%s:row_source" % who, bad is None and len(calls) == 1,
              "one call of the per-record routine per record, on the record's whole seq",
              bad[0] if bad else "%d calls of the per-record routine (expected 1)" % len(calls),
              line_of(bad[1]) if bad else fv.fn["sp"])


def error_discipline(ctx, rule, fv, who, one):
    """The rejection of a record (Err from vectorise_one) must not be lost on its way out of the file writer:
    the Result is unwrapped/expected/`?`-propagated where it is produced, no Result-typed statement is discarded,
    and no Result is assigned to a variable inside a loop (a later Ok would overwrite an earlier Err)."""
    calls = fv.calls_to(one)
    bad = None
    for c in calls:
        par = fv.parent.get(id(c))
        okc = par is not None and ((par.get("k") == "mcall" and cname(par).split("::")[-1] in ("unwrap", "expect"))
                                   or par.get("k") == "try")
        if not okc:
            bad = ("the Result of %s is neither unwrapped nor `?`-propagated where it is produced" % one.split("::")[-1], c)
    for n in fv.nodes:
        if n.get("k") == "semi" and n["e"].get("ty", "").startswith("std::result::Result<") and n["e"].get("k") in ("call", "mcall"):
            bad = ("a Result-typed statement `%s` is discarded: an error (e.g. a rejected record) would go unnoticed"
                   % show(fv.term(n["e"]))[:120], n["e"])
        if n.get("k") == "assign" and n["r"].get("ty", "").startswith("std::result::Result<") \
                and fv.enclosing(n, ("for", "while", "loop")) is not None:
            gs = [show(fv.term(g)) for g, pol in fv.guards(n)]
            if not any("is_ok" in g or "is_err" in g for g in gs):
                bad = ("a Result is assigned to `%s` inside a loop: a later successful batch overwrites an earlier "
                       "rejection, which then never reaches the caller" % show(fv.term(n["l"])), n)
    ctx.check(rule, "%s:rejection_not_lost" % who, bad is None and len(calls) >= 1,
              "every Err of the per-record routine is unwrapped or propagated; no Result is dropped or overwritten",
              bad[0] if bad else "no call of the per-record routine found", line_of(bad[1]) if bad else fv.fn["sp"])
