"""C17 — outputs depend only on input and options, not on what is already on disk."""
from .common import *
from . import c07, c14

EXPLANATION = (
    "Fully structural, decided for all histories: (T) who-may-open-for-write — every resolved call in "
    "workspace code to File::create / create_new / OpenOptions::open / fs::write / copy / rename is "
    "enumerated; File::create truncates by definition, an OpenOptions chain must carry truncate(true) "
    "(or be read-only), append(true) is a violation; (M) the mapped file is set_len(size) before mapping; "
    "(G) merge reads exactly the (part, chunk) grid count_chunk wrote in this run and no directory "
    "listing / glob call exists in the workspace (zero-site rule with an embedded positive control); (C) "
    "a new CountComputer starts with chunks = 0, chunks is written only by count(), n_parts only by "
    "init() from this run's input; (O) result file names are fixed templates of the user's paths.")
ASSUMPTIONS = ["std::fs::File::create truncates an existing file (documented)",
               "set_len + full tiling of the mapping (C14.O/P) leaves no stale byte"]

WRITE_OPENERS = ("std::fs::File::create", "std::fs::File::create_new", "std::fs::OpenOptions::open", "std::fs::write",
                 "std::fs::copy", "std::fs::rename", "std::fs::File::options", "std::fs::hard_link",
                 "std::os::unix::fs::symlink")
LISTERS = ("std::fs::read_dir", "std::path::Path::read_dir", "glob::glob", "walkdir::WalkDir::new", "std::fs::ReadDir")


def chain_of(fv, n):
    """builder chain below an `.open(path)` call: [(method, first-arg term)]"""
    out = []
    cur = n["recv"] if n.get("k") == "mcall" else None
    while cur is not None and cur.get("k") == "mcall":
        a = fv.term(cur["args"][0]) if cur.get("args") else None
        out.append((cname(cur).split("::")[-1], a))
        cur = cur["recv"]
    if cur is not None and cur.get("k") == "call":
        out.append((cname(cur), None))
    return out


def open_verdict(chain):
    d = {m: a for m, a in chain}
    if d.get("append") == L(True):
        return "opens with append(true): bytes of an earlier run stay in front of the new result"
    writes = d.get("write") == L(True) or d.get("read_write") == L(True)
    if not writes:
        return None     # read-only open
    if d.get("create_new") == L(True):
        return "opens with create_new(true): a second run onto the same path fails and leaves the earlier result in place"
    if d.get("truncate") == L(True):
        return None
    return "opens for writing without truncate(true): a longer file left by an earlier run keeps its tail"


def run(ctx):
    open_rules(ctx)
    rest_rules(ctx)


def open_rules(ctx):
    n_create = n_chain = 0
    for fv in ctx.all_views():
        k_in = 0
        for n in fv.nodes:
            if n.get("k") not in ("call", "mcall"):
                continue
            c = cname(n)
            if c not in WRITE_OPENERS and rname(n) not in WRITE_OPENERS:
                continue
            k_in += 1
            key = "%s:%s@%d" % (fv.path, c.split("::")[-1], k_in)
            if c == "std::fs::File::create":
                n_create += 1
                ctx.ok("C17.T", key, "File::create (truncating) of %s" % show(fv.term(n["args"][0]))[:80], line_of(n))
            elif c == "std::fs::OpenOptions::open":
                n_chain += 1
                ch = chain_of(fv, n)
                bad = open_verdict(ch)
                ctx.check("C17.T", key, bad is None, "OpenOptions chain %s" % [m for m, _ in ch],
                          "`OpenOptions…open(%s)` %s (chain: %s)" % (show(fv.term(n["args"][0])), bad,
                                                                     [(m, show(a) if a else "") for m, a in ch]), line_of(n))
            elif c in ("std::fs::File::create_new",):
                ctx.ok("C17.T", key, "create_new (fails if the file exists)", line_of(n))
            else:
                ctx.fail("C17.T", key, "`%s` writes/renames files outside the audited open-for-write idioms" % c, line_of(n))
    if n_create + n_chain < 9:
        ctx.fail("C17.T", "write_opens:floor", "expected the 9 confirmed open-for-write sites (8 File::create + the mapped "
                 "file), found %d" % (n_create + n_chain))
    c14.mmap_open_rule_as(ctx, "C17.M")


WRITERS = [("composition::oligo::OligoComputer::vectorise_mmap", "oligo::vectorise_mmap"),
           ("composition::oligo::OligoComputer::vectorise_batch", "oligo::vectorise_batch"),
           ("composition::cgr::CgrComputer::vectorise", "cgr::vectorise"),
           ("composition::oligocgr::OligoCgrComputer::vectorise", "oligocgr::vectorise"),
           ("coverage::CovComputer::compute_coverages", "compute_coverages"),
           ("counter::CountComputer::merge", "merge"),
           ("misc::minimisers::bin_sequences", "bin_sequences"),
           ("misc::minimisers::seq_to_min", "seq_to_min")]


def writers_rule(ctx, R="C17.W"):
    for path, who in WRITERS:
        fv = ctx.need(R, path)
        if fv is not None:
            rule_output_always_created(ctx, R, fv, who)


def rest_rules(ctx):
    writers_rule(ctx)
    # "the same command twice gives the same bytes": the ordered writers hand their batches to the sink sequentially,
    # in arrival order, from ordered collects -- nothing is left to the scheduler
    d5 = dep(ctx, "C17", "C05")
    for path, who, n_coll in (("composition::oligo::OligoComputer::vectorise_batch", "oligo::vectorise_batch", 1),
                              ("composition::cgr::CgrComputer::vectorise", "cgr::vectorise", 1),
                              ("composition::oligocgr::OligoCgrComputer::vectorise", "oligocgr::vectorise", 1),
                              ("coverage::CovComputer::compute_coverages", "compute_coverages", 2)):
        fv = ctx.view(path)
        if fv is not None:
            rule_ordered_collects(d5, "C05.O", fv, n_coll)
            rule_sink_sequential(d5, "C05.O", fv, who)
            rule_flush_pairing(d5, "C05.F", fv, who)
    # the s2m listing is the same set of lines on every run: each line is written whole under the writer lock
    from . import c10
    fs2_ = ctx.view(c10.S2M)
    if fs2_ is not None:
        c10.s2m_rules(dep(ctx, "C17", "C10"), fs2_)
    fm2_ = ctx.view(c10.M2S)
    if fm2_ is not None:
        c10.m2s_rules(dep(ctx, "C17", "C10"), fm2_)        # the inversion is one atomic entry() per run: no lost update
        c07.atomic_idiom_rule(dep(ctx, "C17", "C07"), "C07.A", fm2_, "bin_sequences")
    fcc_ = ctx.view(c07.CHUNK)
    if fcc_ is not None:
        c07.take_rule(dep(ctx, "C17", "C07"), fcc_)        # no record is dropped at a chunk boundary
    # the counter rebuilds its whole (partition, chunk) grid and the coverage table on every run
    fcc, fcm, fcn = ctx.view(c07.CHUNK), ctx.view(c07.MERGE), ctx.view(c07.COUNT)
    d = dep(ctx, "C17", "C07")
    if fcc is not None and fcn is not None:
        c07.chunk_rule(d, fcn, fcc)
    if fcc is not None:
        c07.routing_rule(d, fcc)            # every chunk pass counts into fresh tables: the chunk split is scheduling-dependent
    if fcm is not None:
        c07.merge_rule(d, fcm)
        c07.delete_rule(d, fcm)
    from . import c08
    c08.table_rule(dep(ctx, "C17", "C08"))
    from . import c03
    c03.maps_rules(dep(ctx, "C17", "C03"), "C03")      # the rank tables depend on k alone, not on what an earlier call built
    fcov_ = ctx.view(c08.COV)
    if fcov_ is not None:
        c08.inputs_rule(dep(ctx, "C17", "C08"), fcov_)        # .. and read afresh from disk by every compute_coverages()
    # G
    fc, fm = ctx.need("C17.G", c07.CHUNK), ctx.need("C17.G", c07.MERGE)
    if fc is not None and fm is not None:
        c07.names_rule(ctx, fc, fm, "C17.G")
    listers = []
    for fv in ctx.all_views():
        for n in fv.nodes:
            if n.get("k") in ("call", "mcall") and is_lister(cname(n), rname(n)):
                listers.append((fv.path, n))
    ctx.check("C17.G", "workspace:no_directory_listing", not listers,
              "no read_dir/glob call in the workspace: results never depend on directory contents",
              "`%s` lists a directory in %s: a stale file of an earlier run can be picked up"
              % (cname(listers[0][1]) if listers else "", listers[0][0] if listers else ""),
              line_of(listers[0][1]) if listers else None)
    # positive control for the zero-site rules
    ctrl_ok = is_lister("std::fs::read_dir", "std::fs::read_dir") and \
        open_verdict([("append", L(True)), ("create", L(True)), ("std::fs::OpenOptions::new", None)]) is not None and \
        open_verdict([("create", L(True)), ("write", L(True)), ("std::fs::OpenOptions::new", None)]) is not None and \
        open_verdict([("create", L(True)), ("truncate", L(True)), ("write", L(True))]) is None
    ctx.check("C17.G", "selftest:positive_control", ctrl_ok, "the zero-site predicates fire on the embedded positive examples",
              "checker self-test failed: the read_dir / append / missing-truncate predicates no longer match their controls",
              None, nontrivial=False)
    counter_state_rule(ctx)
    names_rule(ctx)


def is_lister(c, r):
    return c in LISTERS or r in LISTERS or c.endswith("::read_dir") or c.startswith("glob::") or c.startswith("walkdir::")


def counter_state_rule(ctx):
    fn = ctx.need("C17.C", "counter::CountComputer::new")
    if fn is not None:
        lit = struct_literal(fn, "counter::CountComputer")
        fs = struct_fields(fn, lit) if lit else {}
        ctx.check("C17.C", "CountComputer::new:chunks0", fs.get("chunks") == L(0), "a new counter starts with chunks = 0",
                  "CountComputer::new initialises chunks = %s" % show(fs.get("chunks", ("none",))), line_of(lit) if lit else fn.fn["sp"])
        for f in ("out_dir", "in_path", "ksize"):
            ctx.check("C17.C", "CountComputer::new:%s" % f, f in fs and is_param(fn, fs[f], f), "%s <- parameter" % f,
                      "field %s <- %s" % (f, show(fs.get(f, ("none",)))), line_of(lit) if lit else fn.fn["sp"])
    writers = {}
    for fv in ctx.all_views():
        for n in fv.nodes:
            if n.get("k") in ("assign", "assignop") and n["l"].get("k") == "field" and n["l"].get("adt") == "counter::CountComputer" \
                    and n["l"]["name"] in ("chunks", "n_parts", "out_dir"):
                writers.setdefault(n["l"]["name"], set()).add(fv.path)
    ctx.check("C17.C", "CountComputer:chunks_writers", writers.get("chunks", set()) == {"counter::CountComputer::count"},
              "chunks written only by count()", "chunks is written by %s" % sorted(writers.get("chunks", set())), None)
    ctx.check("C17.C", "CountComputer:n_parts_writers", writers.get("n_parts", set()) == {"counter::CountComputer::init"},
              "n_parts written only by init()", "n_parts is written by %s" % sorted(writers.get("n_parts", set())), None)
    fi = ctx.need("C17.C", "counter::CountComputer::init")
    if fi is not None:
        st = fi.calls_to("ktio::seq::Sequences::seq_stats")
        ok = len(st) == 1 and contains(fi.term(st[0]), lambda s: s == SF("in_path"))
        ctx.check("C17.C", "init:from_this_input", ok, "n_parts is recomputed from this run's input statistics",
                  "init() does not derive the partition count from seq_stats of self.in_path", fi.fn["sp"])


def names_rule(ctx):
    """result files are fixed templates of the user's path"""
    want = [
        ("counter::CountComputer::merge", "std::fs::File::create", "{}/kmers.counts", (SF("out_dir"),)),
        ("coverage::CovComputer::compute_coverages", "std::fs::File::create", "{}/kmers.vectors", (SF("out_dir"),)),
    ]
    for path, callee, tmpl, args in want:
        fv = ctx.need("C17.O", path)
        if fv is None:
            continue
        cs = fv.calls_to(callee)
        ok = len(cs) == 1 and fv.term(cs[0]["args"][0])[0] == "format" and fmt_template(fv.term(cs[0]["args"][0])) == tmpl \
            and fv.term(cs[0]["args"][0])[2] == args
        ctx.check("C17.O", "%s:result_name" % path.split("::")[-1], ok, "result file %s of out_dir" % tmpl,
                  "result file name is `%s`" % (show(fv.term(cs[0]["args"][0])) if cs else "?"), line_of(cs[0]) if cs else fv.fn["sp"])
    for path, field in (("composition::oligo::OligoComputer::vectorise_batch", "out_path"),
                        ("composition::cgr::CgrComputer::vectorise", "out_path"),
                        ("composition::oligocgr::OligoCgrComputer::vectorise", "out_path")):
        fv = ctx.need("C17.O", path)
        if fv is None:
            continue
        cs = fv.calls_to("std::fs::File::create", "std::fs::OpenOptions::open")
        ok = len(cs) == 1 and fv.term(cs[0]["args"][0]) == SF(field)
        ctx.check("C17.O", "%s:result_name" % (path.split("::")[1] + "::" + path.split("::")[-1]), ok, "writes exactly self.%s" % field,
                  "output path is `%s`" % (show(fv.term(cs[0]["args"][0])) if cs else "?"), line_of(cs[0]) if cs else fv.fn["sp"])
    fm = ctx.view("composition::oligo::OligoComputer::vectorise_mmap")
    if fm is not None:
        cs = fm.calls_to("ktio::mmap::mmap_file_for_writing")
        ok = len(cs) == 1 and fm.term(cs[0]["args"][0]) == SF("out_path")
        ctx.check("C17.O", "oligo::vectorise_mmap:result_name", ok, "maps exactly self.out_path", "mapped path differs", fm.fn["sp"])
    for path in ("misc::minimisers::bin_sequences", "misc::minimisers::seq_to_min"):
        fv = ctx.need("C17.O", path)
        if fv is None:
            continue
        cs = fv.calls_to("std::fs::File::create", "std::fs::OpenOptions::open")
        ok = len(cs) == 1 and fv.term(cs[0]["args"][0]) == ("param", param_index(fv, "out_path"))
        if not cs:
            for c, hv in helper_views(ctx, fv):
                hcs = hv.calls_to("std::fs::File::create", "std::fs::OpenOptions::open")
                if len(hcs) == 1 and hv.term(hcs[0]["args"][0])[0] == "param":
                    pi_ = hv.term(hcs[0]["args"][0])[1]
                    args = [fv.term(a) for a in call_args(c)]
                    ok = pi_ < len(args) and args[pi_] == ("param", param_index(fv, "out_path"))
                    cs = [c]
        ctx.check("C17.O", "%s:result_name" % path.split("::")[-1], ok, "writes exactly out_path",
                  "output path is `%s`" % (show(fv.term(cs[0]["args"][0])) if cs else "?"), line_of(cs[0]) if cs else fv.fn["sp"])
