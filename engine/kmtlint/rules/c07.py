"""C07 — k-mer counting is exact and independent of threads, chunking and partitioning."""
from .common import *
import re

EXPLANATION = (
    "Every structural way a k-mer occurrence could be lost, duplicated, split across partitions or "
    "mis-merged, decided for all schedules and ceilings: (K) the key counted, the dividend of the "
    "partition routing and min(fwd, rev) are one term, divisor and table length one field; (A) inside "
    "spawned workers the concurrent maps are touched only through the atomic entry idiom, scan only "
    "after the scope; (T) on every path of the worker loop a taken record reaches the k-mer loop, the "
    "ceiling test precedes the take, the only other exit is the None arm; (C) chunk bookkeeping; (F) "
    "temp-file name template and argument roles equal in writer and reader; (L) line format writer vs "
    "parser; (M) per-partition fresh map, += accumulation, scan after the scope, ACGT arm differs only "
    "by numeric_to_kmer(k, ksize); (D) the file deleted is the file read, under `delete`, after reading. "
    "Does not decide count values.")
ASSUMPTIONS = ["scc::HashMap::entry / Entry::and_modify / or_insert are atomic per key (documented)",
               "Mutex<Sequences> hands each record to exactly one worker (C05.L)"]

CHUNK = "counter::CountComputer::count_chunk"
COUNT = "counter::CountComputer::count"
MERGE = "counter::CountComputer::merge"
INIT = "counter::CountComputer::init"
TEMPLATE_KEY = "temp-file"


def is_scc(n):
    return n.get("k") == "mcall" and cname(n).startswith("scc::")


def run(ctx):
    fc = ctx.need("C07.K", CHUNK)
    fm = ctx.need("C07.M", MERGE)
    fn = ctx.need("C07.C", COUNT)
    if fc is not None:
        routing_rule(ctx, fc)
        take_rule(ctx, fc)
    for fv, who in ((fc, "count_chunk"), (fm, "merge")):
        if fv is not None:
            atomic_idiom_rule(ctx, "C07.A", fv, who)
    fb = ctx.view("misc::minimisers::bin_sequences")
    if fb is not None:
        atomic_idiom_rule(ctx, "C07.A", fb, "bin_sequences")
    ctx.floor("C07.A", 3)
    if fn is not None and fc is not None:
        chunk_rule(ctx, fn, fc)
    if fc is not None and fm is not None:
        names_rule(ctx, fc, fm)
        lines_rule(ctx, fc, fm)
    if fm is not None:
        merge_rule(ctx, fm)
        delete_rule(ctx, fm)
    if fc is not None:
        rule_locked_take(ctx, "C07.L", fc, 1)
    from . import c01, c05
    c01.run(dep(ctx, "C07", "C01"))
    c05.reader_ownership(dep(ctx, "C07", "C05"), "C05.C")
    c05.ordinal_rule(dep(ctx, "C07", "C05"), "C05.N")
    from . import c06
    c06.decoder_rule(dep(ctx, "C07", "C06"))
    c06.suffix_rule(dep(ctx, "C07", "C06"))
    c06.accessor_rule(dep(ctx, "C07", "C06"))
    c06.end_rule(dep(ctx, "C07", "C06"))
    from . import c15
    c15.cli_arm_dep(ctx, "C07", ("Ctr",))
    rule_threads_default(ctx, "C07.L", "counter::CountComputer")
    # "the counts file contains exactly ..": it is (re)created by every merge, also when nothing was counted
    if fm is not None:
        rule_output_always_created(dep(ctx, "C07", "C17"), "C17.W", fm, "counter::merge")


def worker_closure(fv):
    for n in fv.nodes:
        if n.get("k") == "mcall" and is_spawn(n):
            for a in n.get("args", []):
                if a.get("k") == "closure":
                    return a
    return None


def routing_rule(ctx, fc):
    ent = [n for n in fc.nodes if is_scc(n) and cname(n).endswith("::entry")]
    if len(ent) != 1:
        ctx.fail("C07.K", "count_chunk:entry", "expected one scc entry() call in the count worker, found %d" % len(ent), fc.fn["sp"])
        return
    e = ent[0]
    key = fc.term(e["args"][0])
    loop = fc.enclosing(e, ("for",))
    it = fc.term(loop["iter"]) if loop else ("none",)
    item = ("item", it)
    canon = mk_bin("min", ("proj", 0, item), ("proj", 1, item))
    ctx.check("C07.K", "count_chunk:key", key == canon and it[0] == "call" and it[1] == GEN_NEW and it[3] == SF("ksize"),
              "counted key = min(fwd, rev) of KmerGenerator::new(record.seq, self.ksize)",
              "counted key is `%s` over `%s`, expected min(fwd, rev) of KmerGenerator::new(_, self.ksize)"
              % (show(key), show(it)), line_of(e))
    part = fc.term(e["recv"])
    ok = is_gu(part, False) or part[0] == "index"
    idx = part[3] if part[0] == "call" and len(part) > 3 else (part[2] if part[0] == "index" else None)
    exp_idx = mk_bin("%", key, SF("n_parts"))
    ctx.check("C07.K", "count_chunk:route", ok and idx == exp_idx,
              "partition = key %% self.n_parts with the counted key",
              "partition index is `%s`, expected `<counted key> %% self.n_parts` — a k-mer must live in exactly one "
              "partition across all chunks" % (show(idx) if idx else show(part)), line_of(e))
    table = part[2] if part[0] == "call" and len(part) > 2 else (part[1] if part[0] == "index" else None)
    alloc = None
    if table is not None:
        # Arc::new(vec![..; n]) ; Arc::clone is transparent
        t = table
        while t[0] == "call" and t[1].endswith("Arc::new") and len(t) == 3:
            t = t[2]
        alloc = t
    okt = alloc is not None and alloc[0] == "call" and alloc[1].endswith("from_elem") and alloc[3] == SF("n_parts")
    vt = None
    for lid_, b_ in fc.binds.items():
        ty_ = b_.get("ty") or ""
        mm_ = re.search(r"scc::HashMap<u64, (\w+)", ty_)
        if mm_ and "Vec<" in ty_:
            vt = mm_.group(1)
    ctx.check("C07.K", "count_chunk:count_width", vt in ("u32", "u64", "usize", "u128"),
              "partition tables count in %s (the width merge parses)" % vt,
              "the per-chunk tables count in `%s`: a k-mer seen more often than that type holds wraps (release) or panics "
              "(debug) inside one chunk, while merge parses u32" % vt, fc.fn["sp"])
    ctx.check("C07.K", "count_chunk:table_len", okt, "table has self.n_parts partitions",
              "partition table is `%s`, expected vec![map; self.n_parts] (same field as the divisor)"
              % (show(alloc) if alloc else "?"), line_of(e))
    # idiom: entry(k).and_modify(+=1).or_insert(1)
    chain = fc.parent.get(id(e))
    names = []
    cur = e
    while True:
        par = fc.parent.get(id(cur))
        if par is not None and par.get("k") == "mcall" and par["recv"] is cur:
            names.append(cname(par).split("::")[-1])
            cur = par
        else:
            break
    ok_chain = names == ["and_modify", "or_insert"]
    detail = ""
    if ok_chain:
        am = fc.parent.get(id(e))
        oi = fc.parent.get(id(am))
        clo = am["args"][0]
        incs = [x for x in walk(clo) if x.get("k") == "assignop"]
        ok_chain = len(incs) == 1 and incs[0]["op"] == "+=" and fc.term(incs[0]["r"]) == L(1) \
            and fc.term(incs[0]["l"]) == ("cparam", 0) and fc.term(oi["args"][0]) == L(1)
    ctx.check("C07.K", "count_chunk:increment", ok_chain, "entry(k).and_modify(|v| *v += 1).or_insert(1)",
              "the per-occurrence update is not `entry(key).and_modify(|v| *v += 1).or_insert(1)` (chain %s)" % names,
              line_of(e))


def atomic_idiom_rule(ctx, rule, fv, who):
    """inside spawned workers only entry() on concurrent maps; scan only outside workers"""
    n = 0
    for c in fv.nodes:
        if not is_scc(c):
            continue
        last = cname(c).split("::")[-1]
        if "HashMap" not in cname(c):
            continue
        inside = fv.in_closure_passed_to(c, is_spawn) is not None
        n += 1
        key = "%s:%s@%d" % (who, last, n)
        if inside:
            ctx.check(rule, key, last == "entry", "worker uses the atomic entry API",
                      "a worker calls scc::HashMap::%s — only `entry(..)` (with and_modify/or_insert) is an atomic "
                      "read-modify-write; check-then-act sequences lose or duplicate counts under contention" % last,
                      line_of(c))
        else:
            ctx.check(rule, key, last in ("scan", "new", "len", "is_empty", "capacity", "with_capacity", "clone"),
                      "%s outside the workers" % last,
                      "scc::HashMap::%s is called outside the workers in an unexpected role" % last, line_of(c))
            if last == "scan":
                # must come after the scope that runs the workers, in statement order
                blk = None
                stmt = c
                for a in fv.ancestors(c):
                    if a.get("k") == "block" and any(is_call_to(x, "rayon::ThreadPool::scope", "rayon::scope")
                                                     for s in a.get("stmts", []) for x in walk(s)):
                        blk = a
                        break
                    stmt = a
                if blk is not None:
                    seq = blk.get("stmts", []) + ([blk["expr"]] if blk.get("expr") else [])
                    si = next((i for i, s in enumerate(seq) if s is stmt), None)
                    spawn_scopes = [i for i, s in enumerate(seq)
                                    if any(x.get("k") == "mcall" and is_spawn(x) for x in walk(s))]
                    okp = si is not None and (not spawn_scopes or si > max(spawn_scopes))
                    ctx.check(rule, "%s:scan_after_scope@%d" % (who, n), okp, "scan runs after the workers joined",
                              "the map is scanned before the scope that fills it has joined", line_of(c))


def take_rule(ctx, fc):
    rule_locked_take(ctx, "C07.T", fc, 1)
    if rule_spawn_count(ctx, "C07.T", fc, "count_chunk") < 1:
        ctx.fail("C07.T", "count_chunk:spawn_count:floor", "no `for _ in 0..threads` worker spawn loop found", fc.fn["sp"])
    clo = worker_closure(fc)
    if clo is None:
        ctx.fail("C07.T", "count_chunk:worker", "spawned worker closure not found", fc.fn["sp"])
        return
    loops = [n for n in walk(clo) if n.get("k") in ("loop", "while")]
    if not loops:
        ctx.fail("C07.T", "count_chunk:worker_loop", "worker loop not found", line_of(clo))
        return
    loop = loops[0]
    kloops = [n for n in walk(loop) if n.get("k") == "for" and "kmer::kmer::KmerGenerator<" in n.get("iter_ty", "")]
    def want(n):
        if n.get("k") in ("mcall", "call") and rname(n) == SEQ_NEXT:
            return True
        return any(n is k for k in kloops)
    paths = enum_paths(loop["body"], want)
    bad_lost = bad_break = None
    n_take = 0
    for ev, ex in paths:
        took = any(e[0] == "ev" and e[1].get("k") in ("mcall", "call") for e in ev)
        got_some = any(e[0] == "cond" and e[1].get("k") == "letexpr" and e[2] for e in ev)
        got_none = any(e[0] == "cond" and e[1].get("k") == "letexpr" and not e[2] for e in ev)
        counted = any(e[0] in ("enter", "skip") and any(e[1] is k for k in kloops) for e in ev)
        if took:
            n_take += 1
        if took and got_some and not counted:
            bad_lost = ev[-1][1] if ev else loop
        if took and got_some and ex[0] not in ("fall", "continue"):
            bad_lost = ex[1] if ex[0] == "ret" else loop
        if ex[0] == "break":
            if took and not got_none:
                bad_break = loop
        # the take result must be tested
        if took and not (got_some or got_none):
            bad_lost = loop
    ctx.check("C07.T", "count_chunk:taken_is_counted", bad_lost is None and n_take >= 2 and len(kloops) == 1,
              "on all %d paths a taken record reaches the k-mer loop" % len(paths),
              "a path of the worker loop takes a record from the reader and leaves without counting its k-mers "
              "(the record is lost)", line_of(bad_lost) if bad_lost is not None and isinstance(bad_lost, dict) else line_of(loop))
    ctx.check("C07.T", "count_chunk:exits", bad_break is None,
              "workers stop only before taking (ceiling) or when the reader is exhausted",
              "a worker breaks out after taking a record that was not None", line_of(loop))
    # the ceiling test lets a worker take a record whenever the budget counter has not EXCEEDED the budget
    # (counter == budget, in particular 0 == 0 for a tiny ceiling, must still take: otherwise a pass reads nothing)
    def is_budget_load(t):
        return t[0] == "call" and t[1].endswith("::load")
    tests = []
    for n in walk(loop):
        c = n.get("cond") if n.get("k") in ("while", "if") else None
        if c is None or c.get("k") == "letexpr":
            continue
        t = fc.term(c)
        if t[0] == "bin" and t[1] in ("<", "<=") and (is_budget_load(t[2]) != is_budget_load(t[3])):
            if n.get("k") == "while":
                keeps_going_at_equality = t[1] == "<="
            else:
                brk = diverges(n["then"]) and any(x.get("k") == "break" for x in walk(n["then"]))
                if not brk:
                    continue
                keeps_going_at_equality = t[1] == "<"        # `if limit < load { break }`: false at equality
            tests.append((n, t, keeps_going_at_equality))
    ctx.check("C07.T", "count_chunk:ceiling_test", len(tests) == 1 and tests[0][2],
              "workers stop only when the budget counter EXCEEDS the budget (`%s`)" % (show(tests[0][1]) if tests else "?"),
              "the ceiling test `%s` stops a worker already when the counter EQUALS the budget: with a ceiling small enough "
              "for a zero budget no worker ever takes a record, the pass reads nothing and the run ends with empty counts"
              % (show(tests[0][1]) if tests else "<not found>"), line_of(tests[0][0]) if tests else line_of(loop))
    # counting loop uses record.seq of the taken record
    if kloops:
        it = fc.term(kloops[0]["iter"])
        src = it[2] if it[0] == "call" and len(it) > 2 else ("none",)
        ok = src[0] == "field" and src[2] == "seq" and contains(src, lambda s: s[0] == "call" and s[1].endswith("Iterator::next"))
        ctx.check("C07.T", "count_chunk:counts_taken_record", ok, "k-mers are generated from the taken record's bases",
                  "the k-mer loop runs over `%s`, not over the taken record's `seq`" % show(src), line_of(kloops[0]))


def counters_rule(ctx, fc):
    """the atomics the workers share (records taken, k-mer budget) start at zero in every pass"""
    clo = worker_closure(fc)
    if clo is None:
        return
    n = 0
    for c in walk(clo):
        if c.get("k") == "mcall" and "::atomic::Atomic" in cname(c):
            n += 1
            t = fc.term(c["recv"])
            fresh = contains(t, lambda s: s[0] == "call" and s[1].endswith("atomic::Atomic::new") and s[2] == L(0)) \
                and not contains(t, lambda s: s[0] in ("param", "self", "field"))
            ctx.check("C07.C", "count_chunk:counter_per_pass@%d" % n, fresh,
                      "%s on a counter created as zero inside this pass" % cname(c).split("::")[-1],
                      "a worker's %s acts on `%s`, which is not a counter created at zero by this pass: a budget or record "
                      "count carried over from the previous pass makes the workers of the next pass stop before taking a "
                      "record, and a pass that reads nothing is taken for the end of the input (the rest of the file is "
                      "never counted)" % (cname(c).split("::")[-1], show(t)), line_of(c))
    if n < 3:
        ctx.fail("C07.C", "count_chunk:counter_per_pass:floor", "fewer than 3 atomic operations in the worker (found %d)" % n,
                 line_of(clo))


def chunk_rule(ctx, fn, fc):
    counters_rule(ctx, fc)
    ws = self_field_writes(fn, "chunks")
    calls = fn.calls_to(CHUNK)
    ok = len(ws) == 1 and len(calls) == 1 and ws[0][1] == mk_bin("+", SF("chunks"), L(1))
    if ok:
        gs = [(fn.term(c), p) for c, p in fn.guards(ws[0][0])]
        r = fn.term(calls[0])
        ok = (mk_bin("<", L(0), r), True) in gs or (mk_bin("!=", r, L(0)), True) in gs or (mk_bin("==", r, L(0)), False) in gs \
            or (mk_bin("<=", L(1), r), True) in gs
    ctx.check("C07.C", "count:chunks_bump", ok, "chunks += 1 iff the pass consumed records",
              "`chunks` is not incremented exactly when count_chunk() returned > 0", fn.fn["sp"])
    brk = [n for n in fn.nodes if n.get("k") == "break"]
    okb = len(brk) == 1 and calls and any(
        (t, p) in ((mk_bin("<", L(0), fn.term(calls[0])), False), (mk_bin("==", fn.term(calls[0]), L(0)), True))
        for t, p in [(fn.term(c), p) for c, p in fn.guards(brk[0])])
    ctx.check("C07.C", "count:loop_exit", bool(okb), "the chunk loop ends exactly when a pass read nothing",
              "count() does not stop exactly when a chunk pass consumed zero records", line_of(brk[0]) if brk else fn.fn["sp"])
    init_first = fn.calls_to(INIT)
    ctx.check("C07.C", "count:init", len(init_first) == 1, "init() computes n_parts for this run",
              "count() no longer calls init() exactly once", fn.fn["sp"])
    # count_chunk: early `return 0` only before any file is created
    creates = fc.calls_to("std::fs::File::create")
    rets = [n for n in fc.nodes if n.get("k") == "ret"]
    ok0 = len(rets) == 1 and fc.term(rets[0].get("e")) == L(0)
    alt_guarded = False
    if not rets and creates:
        # no early return: the files are written under `if records > 0 { .. }` after the counting scope
        top_ = fc.body.get("stmts", []) + ([fc.body["expr"]] if fc.body.get("expr") is not None else [])
        def idx_of_(node):
            for i, s in enumerate(top_):
                if any(x is node for x in walk(s)):
                    return i
            return 10 ** 6
        spawn_idx_ = [idx_of_(n) for n in fc.nodes if n.get("k") == "mcall" and is_spawn(n)]
        def nonzero(t, p):
            if t[0] != "bin" or not any(x[0] == "call" and x[1].endswith("::load") for x in (t[2], t[3])):
                return False
            return (t[1] == "<" and t[2] == L(0) and p) or (t[1] == "!=" and L(0) in (t[2], t[3]) and p) or \
                (t[1] == "==" and L(0) in (t[2], t[3]) and not p)
        alt_guarded = bool(spawn_idx_) and all(
            idx_of_(c) > max(spawn_idx_) and any(nonzero(fc.term(g), p) for g, p in fc.guards(c)) for c in creates)
        ok0 = alt_guarded
    elif ok0:
        top = fc.body.get("stmts", [])
        def idx_of(node):
            for i, s in enumerate(top):
                if any(x is node for x in walk(s)):
                    return i
            return 10 ** 6
        ok0 = all(idx_of(rets[0]) < idx_of(c) for c in creates) and len(creates) == 1
        spawn_idx = [idx_of(n) for n in fc.nodes if n.get("k") == "mcall" and is_spawn(n)]
        ok0 = ok0 and spawn_idx and idx_of(rets[0]) > max(spawn_idx)
    ctx.check("C07.C", "count_chunk:empty_pass", bool(ok0), "an empty pass returns 0 after the workers joined and writes no file",
              "count_chunk's `return 0` is not placed after the counting scope and before the chunk files are written",
              line_of(rets[0]) if rets else fc.fn["sp"])
    # the pass counts as empty exactly when no record was TAKEN (not when nothing was counted: records without a
    # valid k-mer still have to let the following passes run)
    rec_ctr = None
    adds = [n for n in fc.nodes if n.get("k") == "mcall" and cname(n).endswith("::fetch_add") and fc.term(n["args"][0]) == L(1)]
    taken_adds = []
    for a in adds:
        gs = [c for c, p in fc.guards(a) if p and c.get("k") == "letexpr"]
        loops_ = []
        for anc in fc.ancestors(a):
            if anc.get("k") == "closure":
                break
            if anc.get("k") in ("for", "while", "loop"):
                loops_.append(anc)
        # the outermost loop of the worker closure is the record loop; anything nested in it is a per-record loop
        in_inner_loop = len(loops_) > 1 or (len(loops_) == 1 and loops_[0].get("k") == "for")
        if gs and fc.in_closure_passed_to(a, is_spawn) is not None and not in_inner_loop:
            taken_adds.append(a)
    okc = len(taken_adds) == 1
    if okc:
        rec_ctr = fc.term(taken_adds[0]["recv"])
    ctx.check("C07.C", "count_chunk:records_counted", okc, "one fetch_add(1) per taken record",
              "expected exactly one `fetch_add(1)` on the records counter under `if let Some(record)` in the worker "
              "(found %d)" % len(taken_adds), line_of(taken_adds[0]) if taken_adds else fc.fn["sp"])
    if alt_guarded and rec_ctr is not None:
        res = fc.term(fc.body.get("expr")) if fc.body.get("expr") else ("none",)
        okr = res[0] == "call" and res[1].endswith("::load") and res[2] == rec_ctr
        gz = [fc.term(g) for c in creates for g, p in fc.guards(c)]
        okz = any(contains(t, lambda s_: s_[0] == "call" and s_[1].endswith("::load") and s_[2] == rec_ctr) for t in gz)
        ctx.check("C07.C", "count_chunk:empty_means_no_record", okz, "files are written exactly when the records counter is not 0",
                  "the chunk files are written under a condition that is not `records taken > 0`", fc.fn["sp"])
        ctx.check("C07.C", "count_chunk:returns_record_count", okr, "returns the number of records taken",
                  "count_chunk returns `%s`, not the records counter" % show(res), fc.fn["sp"])
    if rets and rec_ctr is not None:
        gs = [(fc.term(c), p) for c, p in fc.guards(rets[0], with_asserts=False)]
        def is_zero_records(t, p):
            return p and t[0] == "bin" and t[1] == "==" and L(0) in (t[2], t[3]) and any(
                x[0] == "call" and x[1].endswith("::load") and x[2] == rec_ctr for x in (t[2], t[3]))
        okz = len(gs) == 1 and is_zero_records(*gs[0])
        ctx.check("C07.C", "count_chunk:empty_means_no_record", okz, "`return 0` exactly when the records counter is 0",
                  "count_chunk returns 0 (which ends counting) under %s; it must do so exactly when no record was taken "
                  "in this pass — a pass whose records contain no valid k-mer would otherwise silently end the run and "
                  "drop every later record" % [("" if p else "!") + show(t) for t, p in gs], line_of(rets[0]))
        res = fc.term(fc.body.get("expr")) if fc.body.get("expr") else ("none",)
        okr = res[0] == "call" and res[1].endswith("::load") and res[2] == rec_ctr
        ctx.check("C07.C", "count_chunk:returns_record_count", okr, "returns the number of records taken",
                  "count_chunk returns `%s`, not the records counter" % show(res), fc.fn["sp"])
    # write scope: par_iter().enumerate().for_each over the whole table
    fe = [n for n in fc.nodes if n.get("k") == "mcall" and cname(n).endswith("ParallelIterator::for_each")]
    okw = False
    if len(fe) == 1:
        rt = fc.term(fe[0]["recv"])
        okw = rt[0] == "call" and rt[1].endswith("::enumerate") and rt[2][0] == "call" and rt[2][1].endswith("::par_iter")
        if okw and creates:
            okw = any(a is fe[0] for a in fc.ancestors(creates[0]))
    ctx.check("C07.C", "count_chunk:all_partitions_written", okw,
              "every partition of the table is written (par_iter().enumerate())",
              "chunk files are not written by enumerating the whole partition table", line_of(fe[0]) if fe else fc.fn["sp"])


def temp_formats(fv):
    out = []
    for n, ft in formats_in(fv):
        tmpl = fmt_template(ft)
        if "temp_kmers" in tmpl or ("part" in tmpl and "chunk" in tmpl and "/" in tmpl):
            out.append((n, ft, tmpl))
    return out


def role(fv, t):
    """classify a format argument: out_dir | part-index | chunk-index"""
    if t == SF("out_dir"):
        return "out_dir"
    if t == SF("chunks"):
        return "chunk:self.chunks"
    if t[0] == "proj" and t[1] == 0 and t[2][0] == "cparam":
        return "part:enumerate-index"
    if t[0] == "item" and t[1][0] == "struct":
        end = dict(t[1][2]).get("end")
        start = dict(t[1][2]).get("start")
        if start == L(0) and end == SF("n_parts"):
            return "part:0..n_parts"
        if start == L(0) and end == SF("chunks"):
            return "chunk:0..chunks"
    return "other:" + show(t)


def names_rule(ctx, fc, fm, R="C07.F"):
    w, r = temp_formats(fc), temp_formats(fm)
    if len(w) != 1 or len(r) != 1:
        ctx.fail(R, "temp_name:sites", "expected one temp-file name template in count_chunk and one in merge "
                 "(found %d / %d)" % (len(w), len(r)), fc.fn["sp"])
        return
    (wn, wf, wt), (rn, rf, rt) = w[0], r[0]
    ctx.check(R, "temp_name:template", wt == rt, "writer and reader use the template %r" % wt,
              "temp-file name template differs: count_chunk writes %r, merge reads %r" % (wt, rt), line_of(rn))
    wr = [role(fc, a).split(":")[0] for a in wf[2]]
    rr = [role(fm, a).split(":")[0] for a in rf[2]]
    wfull = [role(fc, a) for a in wf[2]]
    rfull = [role(fm, a) for a in rf[2]]
    ctx.check(R, "temp_name:roles", wr == rr and sorted(wr) == ["chunk", "out_dir", "part"],
              "argument roles agree: writer %s, reader %s" % (wfull, rfull),
              "the temp-file name arguments play different roles: count_chunk %s vs merge %s — merge would read "
              "other files than the ones written" % (wfull, rfull), line_of(rn))
    ctx.check(R, "temp_name:writer_chunk", "chunk:self.chunks" in wfull and "part:enumerate-index" in wfull,
              "writer names files by (partition index, self.chunks)",
              "count_chunk does not name its files by the enumerate index and self.chunks: %s" % wfull, line_of(wn))
    ctx.check(R, "temp_name:reader_grid", "chunk:0..chunks" in rfull and "part:0..n_parts" in rfull,
              "merge reads the grid [0,n_parts) x [0,chunks)",
              "merge does not iterate exactly 0..self.n_parts x 0..self.chunks: %s" % rfull, line_of(rn))
    # the file created / opened is the formatted name
    cr = fc.calls_to("std::fs::File::create")
    ctx.check(R, "temp_name:created", len(cr) == 1 and fc.term(cr[0]["args"][0]) == wf,
              "File::create(<template>)", "count_chunk creates a different path than the template", line_of(wn))


def line_writers(fv):
    return [(n, ft) for n, ft in formats_in(fv) if fmt_template(ft) in ("{}\t{:?}\n", "{}\t{}\n")
            or (len(ft[1]) == 4 and ft[1][0][0] == "arg" and ft[1][2][0] == "arg")]


def line_reader(ctx, rule, fv, who):
    """split(sep) -> first parse::<u64>, second parse::<u32>; returns sep"""
    sp = [n for n in fv.nodes if n.get("k") == "mcall" and cname(n).endswith("::split")]
    parses = [n for n in fv.nodes if n.get("k") == "mcall" and cname(n).endswith("::parse")]
    if len(sp) != 1 or len(parses) != 2:
        ctx.fail(rule, "%s:reader" % who, "expected one split and two parses in the line reader (found %d / %d)"
                 % (len(sp), len(parses)), fv.fn["sp"])
        return None
    sep = fv.term(sp[0]["args"][0])
    tys = [p.get("ty", "") for p in parses]
    # order: statement order of the two lets
    ok = "u64" in tys[0] and "u32" in tys[1]
    ctx.check(rule, "%s:field_types" % who, ok, "field 1 parsed as Kmer (u64), field 2 as u32",
              "line fields are parsed as %s, expected (u64 k-mer, u32 count)" % tys, line_of(parses[0]))
    return sep[1] if sep[0] == "lit" else None


def lines_rule(ctx, fc, fm):
    fcov = ctx.view("coverage::CovComputer::compute_coverages")
    pairs = []
    wc = [(n, ft) for n, ft in line_writers(fc)]
    wm = [(n, ft) for n, ft in line_writers(fm)]
    sep_m = line_reader(ctx, "C07.L", fm, "merge")
    sep_c = line_reader(ctx, "C07.L", fcov, "compute_coverages") if fcov is not None else None
    def sep_of(ft):
        lits = [p[1] for p in ft[1] if p[0] == "lit"]
        return lits[0] if lits else None
    for who, ws, sep in (("count_chunk->merge", wc, sep_m), ("merge->compute_coverages", [w for w in wm], sep_c)):
        ok = len(ws) >= 1 and sep is not None and all(
            sep_of(ft) == sep and ft[1][-1] == ("lit", "\n") and len([p for p in ft[1] if p[0] == "arg"]) == 2
            for n, ft in ws)
        ctx.check("C07.L", "%s:line_format" % who, ok,
                  "writer `<key><%r><count>\\n` matches the parser's split(%r)" % (sep, sep),
                  "line format mismatch: writer templates %s vs parser separator %r"
                  % ([fmt_template(ft) for n, ft in ws], sep), line_of(ws[0][0]) if ws else fc.fn["sp"])
    # chunk writer writes (k, v) of the scanned entry
    for n, ft in wc:
        ok = ft[2] == (("cparam", 0), ("cparam", 1))
        ctx.check("C07.L", "count_chunk:line_args", ok, "line = (key, count) of the scanned entry",
                  "chunk line arguments are %s, expected the scanned (k, v)" % [show(a) for a in ft[2]], line_of(n))


def merge_rule(ctx, fm):
    part_loop = None
    for n in fm.nodes:
        if n.get("k") == "for":
            it = fm.term(n["iter"])
            if it[0] == "struct" and dict(it[2]).get("end") == SF("n_parts") and dict(it[2]).get("start") == L(0):
                part_loop = n
    if part_loop is None:
        ctx.fail("C07.M", "merge:part_loop", "loop over 0..self.n_parts not found", fm.fn["sp"])
        return
    news = [n for n in fm.nodes if n.get("k") == "call" and cname(n).startswith("scc::") and cname(n).endswith("::new")]
    ok = len(news) == 1 and any(a is part_loop for a in fm.ancestors(news[0])) \
        and fm.in_closure_passed_to(news[0], lambda c: True) is None
    ctx.check("C07.M", "merge:fresh_map", ok, "a fresh map per partition",
              "the merge map is not constructed once per partition inside the partition loop (counts of different "
              "partitions or of an earlier partition would leak)", line_of(news[0]) if news else line_of(part_loop))
    # accumulation
    ent = [n for n in fm.nodes if is_scc(n) and cname(n).endswith("::entry")]
    ok = False
    detail = "<no entry()>"
    if len(ent) == 1:
        asg = fm.enclosing(ent[0], ("assignop", "assign"))
        if asg is not None:
            lt = fm.term(asg["l"])
            detail = "%s %s %s" % (show(lt), asg.get("op", "="), show(fm.term(asg["r"])))
            parses = [n for n in fm.nodes if n.get("k") == "mcall" and cname(n).endswith("::parse")]
            cnt = [fm.term(fm.parent[id(p)]) for p in parses if "u32" in p.get("ty", "")]
            kmr = [fm.term(fm.parent[id(p)]) for p in parses if "u64" in p.get("ty", "")]
            ok = asg.get("op") == "+=" and lt[0] == "call" and lt[1].endswith("or_insert") and lt[3] == L(0) \
                and cnt and fm.term(asg["r"]) == cnt[0] and kmr and fm.term(ent[0]["args"][0]) == kmr[0]
    if ent:
        rl = fm.enclosing(ent[0], ("for", "while", "loop"))
        inner_clo = fm.enclosing(ent[0], ("closure",))
        branchy = [x for x in walk(rl["body"]) if x.get("k") in ("if", "match", "continue", "break", "ret")
                   and not is_readline_control(x) and not any(is_readline_control(a_) for a_ in fm.ancestors(x))] if rl else []
        okl = rl is not None and not branchy and any(a is inner_clo for a in fm.ancestors(rl))
        ctx.check("C07.M", "merge:every_line", okl, "every line of every chunk file is accumulated unconditionally",
                  "the merge reader skips or filters lines (`%s` in the reading loop): occurrences would be lost"
                  % (branchy[0].get("k") if branchy else "?"), line_of(branchy[0]) if branchy else line_of(ent[0]))
    # chunk writer: every entry of every partition map is written
    fcw = ctx.view(CHUNK)
    if fcw is not None:
        scans = [n for n in fcw.nodes if is_scc(n) and cname(n).endswith("::scan")]
        okw = len(scans) == 1 and not [x for x in walk(scans[0]) if x.get("k") in ("if", "match", "ret")]
        ctx.check("C07.M", "count_chunk:every_entry_written", okw, "every (k-mer, count) entry of a partition is written",
                  "the chunk writer filters the entries it writes", line_of(scans[0]) if scans else fcw.fn["sp"])
    ctx.check("C07.M", "merge:accumulate", ok, "*map.entry(kmer).or_insert(0) += count",
              "merge accumulation is `%s`, expected `*map.entry(<parsed k-mer>).or_insert(0) += <parsed count>`" % detail,
              line_of(ent[0]) if ent else line_of(part_loop))
    # output arms
    ws = [(n, ft) for n, ft in line_writers(fm)]
    ok = len(ws) == 2
    if ok:
        a = [x for x in ws if x[1][2][0] == ("call", "kmer::numeric_to_kmer", ("cparam", 0), SF("ksize"))]
        b = [x for x in ws if x[1][2][0] == ("cparam", 0)]
        ok = len(a) == 1 and len(b) == 1 and fmt_template(a[0][1]) == fmt_template(b[0][1]) \
            and a[0][1][2][1] == b[0][1][2][1] == ("cparam", 1)
        if ok:
            ga = [(fm.term(c), p) for c, p in fm.guards(a[0][0])]
            gb = [(fm.term(c), p) for c, p in fm.guards(b[0][0])]
            ok = (SF("acgt"), True) in ga and (SF("acgt"), False) in gb
    ctx.check("C07.M", "merge:acgt_arm", ok, "ACGT arm differs from the numeric arm only by numeric_to_kmer(k, ksize)",
              "the ACGT and numeric output arms of merge differ by more than the rendering of the key: %s"
              % [(fmt_template(ft), [show(x) for x in ft[2]]) for n, ft in ws], line_of(ws[0][0]) if ws else line_of(part_loop))
    cr = fm.calls_to("std::fs::File::create")
    okc = len(cr) == 1 and fm.term(cr[0]["args"][0])[0] == "format" \
        and fmt_template(fm.term(cr[0]["args"][0])) == "{}/kmers.counts" and fm.term(cr[0]["args"][0])[2] == (SF("out_dir"),) \
        and not any(a is part_loop for a in fm.ancestors(cr[0]))
    ctx.check("C07.M", "merge:result_file", okc, "counts go to <out_dir>/kmers.counts, created once",
              "merge does not create `{out_dir}/kmers.counts` exactly once outside the partition loop",
              line_of(cr[0]) if cr else fm.fn["sp"])


def delete_rule(ctx, fm):
    clo = worker_closure(fm)
    if clo is None:
        ctx.fail("C07.D", "merge:worker", "merge worker closure not found", fm.fn["sp"])
        return
    opens = [n for n in walk(clo) if is_call_to(n, "std::fs::File::open")]
    dels = [n for n in walk(clo) if is_call_to(n, "ktio::fops::delete_file_if_exists", "std::fs::remove_file")]
    ok = len(opens) == 1 and len(dels) == 1 and fm.term(opens[0]["args"][0]) == fm.term(dels[0]["args"][0])
    ctx.check("C07.D", "merge:same_path", ok, "the path deleted is the path read",
              "merge deletes `%s` but read `%s`" % ([show(fm.term(d["args"][0])) for d in dels],
                                                  [show(fm.term(o["args"][0])) for o in opens]),
              line_of(dels[0]) if dels else line_of(clo))
    if ok:
        dp = param_index(fm, "delete")
        gs = [(fm.term(c), p) for c, p in fm.guards(dels[0], with_asserts=False)]
        ctx.check("C07.D", "merge:delete_flag", gs == [(("param", dp), True)], "deletion only under `delete`",
                  "temp-file deletion is guarded by %s, expected exactly the `delete` argument"
                  % [("" if p else "!") + show(t) for t, p in gs], line_of(dels[0]))
        body = clo["body"]
        seq = body.get("stmts", []) + ([body["expr"]] if body.get("expr") else [])
        def idx_of(node):
            for i, s in enumerate(seq):
                if any(x is node for x in walk(s)):
                    return i
            return None
        rd = [n for n in walk(clo) if n.get("k") in ("for", "while", "loop")
              and any(is_scc(x) and cname(x).endswith("::entry") for x in walk(n))]      # the loop that accumulates the lines
        okp = bool(rd) and idx_of(dels[0]) is not None and idx_of(rd[0]) is not None and idx_of(dels[0]) > idx_of(rd[0])
        ctx.check("C07.D", "merge:delete_after_read", okp, "deletion follows the read loop",
                  "the temp file is deleted before it has been read", line_of(dels[0]))
