"""C01 — k-mer iterator yields exactly the valid windows, in order, 2-bit encoded."""
from .common import *

EXPLANATION = (
    "Static rules over the type-checked HIR of kmer::kmer: (T1) the compiler-evaluated byte-class "
    "table is compared exhaustively (bytes 4..=255) with the property's table; (T2,T3) the class read "
    "by next() is TABLE[seq[pos]] and the 'clean' comparison, evaluated over the table's value set, "
    "selects exactly {0,1,2,3}; (G1) mask/shift normalise to 2^(2k)-1 and 2k-2; (S1-S4) rolling-update, "
    "length, position and emission slots on every structured path of one loop iteration; (B) every "
    "literal shift/mask on the 2-bit registers is 2/3. Decides these structural clauses for all inputs; "
    "does not decide that the loop computes the window semantics (value-level).")
ASSUMPTIONS = ["hand argument (minimap2 rolling encoding) that mask=4^k-1, shift=2(k-1), reset-to-0 and "
               "saturation at k make len==k hold exactly when the last k bytes were clean"]

NEXT = "<kmer::kmer::KmerGenerator as std::iter::Iterator>::next"
NEW = "kmer::kmer::KmerGenerator::new"
TABLE = "kmer::kmer::SEQ_NT4_TABLE"
REV = "kmer::kmer::REV_MASK"
ADT = "kmer::kmer::KmerGenerator"


def run(ctx):
    tab = rule_nt4_table(ctx, "C01.T1", TABLE)
    ctx.floor("C01.T1", 252)
    fv_new = ctx.need("C01.G1", NEW)
    fv = ctx.need("C01.S1", NEXT)
    if fv_new is not None:
        rule_geometry(ctx, "C01.G1", fv_new, ADT, "mask", "shift", "ksize",
                      ["fval", "rval", "len", "pos"],
                      {"ksize": (lambda t: is_param(fv_new, t, "ksize"), "parameter ksize"),
                       "seq": (lambda t: is_param(fv_new, t, "seq"), "parameter seq")})
        ctx.floor("C01.G1", 8)
    if fv is None:
        return
    generator_rules(ctx, fv, tab)
    bits_rule(ctx)
    panic_audit(ctx, "C01.G1", ["kmer::", "<kmer::"])       # every 1 <= k <= 31 is accepted: no new precondition
    # pykmertools.KmerGenerator is an observation point of this property: it must be the core iterator over the same bytes
    from . import c13
    c13.kmer_binding_rules(dep(ctx, "C01", "C13"))


def none_only_at_exhaustion(ctx, rule, fv, who):
    """every `return None` of next() is dominated by the exhaustion test pos == seq.len(): no other early exit ends
    the iteration (e.g. `if seq.len() <= k { return None }` silently drops a sequence of exactly k bases)"""
    rets = [n for n in fv.nodes if n.get("k") == "ret" and fv.enclosing(n, ("closure",)) is None
            and is_none(fv.term(n.get("e")))]
    bad = None
    for r in rets:
        gs = [(fv.term(g), pol) for g, pol in fv.guards(r)]
        if not any(exhaustion_verdict(t, pol) is True for t, pol in gs):
            bad = r
            break
    tail = fv.body.get("expr")
    n_sites = len(rets)
    if tail is not None and is_none(fv.term(tail)):
        # `while pos < len { .. } None`: the tail None is reached exactly when the loop condition failed
        stmts = fv.body.get("stmts", [])
        last = stmts[-1] if stmts else None
        last = last["e"] if last is not None and last.get("k") == "semi" else last
        wl_ = None
        if last is not None and last.get("k") == "loop" and last.get("from_while_let"):
            b_ = last.get("body") or {}
            wl_ = b_.get("expr") if b_.get("k") == "block" and not b_.get("stmts") else None
        if last is not None and last.get("k") == "while" and exhaustion_verdict(fv.term(last["cond"]), False) is True:
            n_sites += 1
        elif isinstance(wl_, dict) and wl_.get("k") == "if" and exhaustion_verdict(fv.term(wl_["cond"]), False) is True \
                and not [x for x in walk(wl_["then"]) if x.get("k") == "break" and x.get("target") == last.get("lid")]:
            n_sites += 1          # `while let Some(&c) = seq.get(pos) { .. } None`: left only when pos reached the end
        else:
            bad = bad or tail
    ctx.check(rule, "%s:none_only_at_exhaustion" % who, bad is None and n_sites >= 1,
              "%d `return None` site(s), each under pos == seq.len()" % len(rets),
              "next() returns None under %s, which is not the exhaustion test: the iteration can end (or never start) "
              "while bases are still unread" % ([("" if p else "!") + show(t) for t, p in [(fv.term(g), pol) for g, pol in fv.guards(bad)]] if bad is not None else "?"),
              line_of(bad) if bad else fv.fn["sp"])


def generator_rules(ctx, fv, tab):
    none_only_at_exhaustion(ctx, "C01.S5", fv, "next")
    c = class_term(TABLE)
    # T2: the class read is TABLE[seq[pos]]
    reads = [n for n in fv.nodes if n.get("k") == "index" and fv.term(n) == c]
    ctx.check("C01.T2", "next:class", len(reads) >= 1,
              "class = SEQ_NT4_TABLE[self.seq[self.pos]] (%d read site)" % len(reads),
              "next() no longer classifies the byte as kmer::SEQ_NT4_TABLE[self.seq[self.pos]]",
              line_of(reads[0]) if reads else fv.fn["sp"])
    other_tab = [n for n in fv.nodes if n.get("k") == "index" and fv.term(n["e"])[0] == "const"
                 and fv.term(n["e"]) != ("const", TABLE)]
    ctx.check("C01.T2", "next:one_table", not other_tab, "no other table consulted",
              "next() indexes a different constant table: %s"
              % (show(fv.term(other_tab[0])) if other_tab else ""),
              line_of(other_tab[0]) if other_tab else None)

    rule_register_updates(ctx, "C01.S1", fv, "KmerGenerator", TABLE, REV, "fval", "rval", "len",
                          "mask", "shift")
    # T3: the `if` holding the forward update
    fw = [n for n, t in self_field_writes(fv, "fval")]
    iter_root, loop = iteration_node(fv)
    if not fw or loop is None:
        ctx.fail("C01.T3", "next:guard", "cannot locate the clean-branch update / main loop", fv.fn["sp"])
        return
    upd = fw[0]
    guard_if = None
    cur = upd
    for a in fv.ancestors(upd):
        if a.get("k") == "if" and fv.key_in_parent.get(id(cur)) in ("then", "else"):
            guard_if = (a, fv.key_in_parent.get(id(cur)) == "then")
            break
        cur = a
    if guard_if is None:
        ctx.fail("C01.T3", "next:guard", "register update is not under a class test", line_of(upd))
        return
    gif, pol = guard_if
    vals = sorted(set(tab[4:])) if tab else [0, 1, 2, 3, 4]
    sel = clean_guard_set(ctx, fv, gif["cond"], set(vals) | {0, 1, 2, 3, 4}, TABLE)
    if sel is None:
        ctx.fail("C01.T3", "next:guard", "clean test `%s` is not a comparison of the byte class with a literal"
                 % show(fv.term(gif["cond"])), line_of(gif))
    else:
        clean = sel if pol else ({0, 1, 2, 3, 4} - sel)
        ctx.check("C01.T3", "next:guard", clean == {0, 1, 2, 3},
                  "clean test `%s` selects classes %s" % (show(fv.term(gif["cond"])), sorted(clean)),
                  "clean test `%s` treats classes %s as clean; the property requires exactly {0,1,2,3} "
                  "(class 4 = any other byte must reset)" % (show(fv.term(gif["cond"])), sorted(clean)),
                  line_of(gif))
    clean_br = gif["then"] if pol else gif.get("else")
    amb_br = gif.get("else") if pol else gif["then"]

    # S2 length slots
    lw_clean = self_field_writes(fv, "len", clean_br)
    ctx.check("C01.S2", "next:len_inc",
              len(lw_clean) == 1 and lw_clean[0][1] == mk_bin("+", SF("len"), L(1)),
              "clean byte: len += 1", "clean branch must do exactly `len += 1`, found %s"
              % [show(t) for _, t in lw_clean], line_of(clean_br))
    lw_amb = self_field_writes(fv, "len", amb_br) if amb_br is not None else []
    ctx.check("C01.S2", "next:len_reset", len(lw_amb) == 1 and lw_amb[0][1] == L(0),
              "other byte: len = 0", "ambiguous branch must reset `len = 0` (and nothing else), found %s"
              % [show(t) for _, t in lw_amb], line_of(amb_br) if amb_br else line_of(gif))
    if amb_br is not None:
        extra = [n for n in walk(amb_br) if n.get("k") in ("ret",)]
        ctx.check("C01.S2", "next:amb_no_emit", not extra, "nothing emitted on an ambiguous byte",
                  "the ambiguous branch returns an item", line_of(amb_br))

    # paths of one iteration
    def want(n):
        k = n.get("k")
        if k in ("assign", "assignop"):
            return fv.term(n["l"]) in (SF("pos"), SF("len"))
        if k == "index":
            return fv.term(n) == ("index", SF("seq"), SF("pos"))
        return k == "ret"
    try:
        paths = enum_paths(iter_root, want)
    except TooManyPaths:
        ctx.fail("C01.S3", "next:paths", "too many paths to enumerate", line_of(loop))
        return
    emit_guard = mk_bin("==", SF("len"), SF("ksize"))
    def is_exhaust(t):
        return exhaustion_verdict(t, True) is not None
    n_emit = 0
    bad_pos = bad_first = bad_emit = bad_sat = None
    for ev, ex in paths:
        incs = [e for e in ev if e[0] == "ev" and e[1].get("k") in ("assign", "assignop")
                and fv.term(e[1]["l"]) == SF("pos")]
        decs = [e for e in ev if e[0] == "ev" and e[1].get("k") in ("assign", "assignop")
                and fv.term(e[1]["l"]) == SF("len")
                and fv.term(e[1]["r"]) == L(1) and e[1].get("op") == "-="]
        conds = [(fv.term(e[1]), e[2]) for e in ev if e[0] == "cond"]
        first = next((e for e in ev if (e[0] == "cond" and is_exhaust(fv.term(e[1])))
                      or (e[0] == "ev" and e[1].get("k") == "index")), None)
        if first is not None and first[0] != "cond":
            bad_first = first[1]
        is_none_exit = ex[0] == "ret" and any(exhaustion_verdict(c, pol) is True for c, pol in conds)
        if is_none_exit:
            rt = fv.term(ex[1].get("e"))
            if not is_none(rt):
                bad_emit = ex[1]
            if incs:
                bad_pos = ex[1]
            continue
        if len(incs) != 1 or any(fv.term(i[1]["r"]) != L(1) or i[1].get("op") != "+=" for i in incs):
            bad_pos = (incs[0][1] if incs else loop)
        took_emit = (emit_guard, True) in conds or (mk_bin("!=", SF("len"), SF("ksize")), False) in conds
        if ex[0] == "ret":
            n_emit += 1
            rt = fv.term(ex[1].get("e"))
            good = some_of(rt) == ("tup", SF("fval"), SF("rval"))
            if not good or not took_emit:
                bad_emit = ex[1]
            if len(decs) != 1:
                bad_sat = ex[1]
        elif took_emit:
            bad_sat = loop
    ctx.check("C01.S3", "next:pos_once", bad_pos is None,
              "pos advances exactly once per inspected byte on all %d paths" % len(paths),
              "a path of the loop body advances `pos` zero or several times (a byte is skipped or read twice)",
              line_of(bad_pos) if bad_pos else None)
    ctx.check("C01.S3", "next:exhaustion_first", bad_first is None,
              "exhaustion test `pos == seq.len()` precedes the read on every path",
              "seq[pos] is read before the exhaustion test", line_of(bad_first) if bad_first else None)
    ctx.check("C01.S4", "next:emit", bad_emit is None and n_emit >= 1,
              "emits Some((fval, rval)) only under len == ksize (%d emitting path(s))" % n_emit,
              "an emitting path does not return Some((fval, rval)) under the guard `len == ksize`",
              line_of(bad_emit) if bad_emit else line_of(loop))
    symbolic_rules(ctx, fv, iter_root, loop)
    ctx.check("C01.S2", "next:saturate", bad_sat is None,
              "len -= 1 exactly once on every emitting path",
              "when len reaches ksize it must be decremented exactly once before emitting",
              line_of(bad_sat) if bad_sat else None)


def bits_rule(ctx):
    """every literal shift amount applied to a u64 register in crate kmer is 2; literal digit masks are 3"""
    n_shift = n_mask = 0
    for fv in ctx.all_views(lambda f: f["npath"].startswith("kmer::") or f["npath"].startswith("<kmer::")):
        for n in fv.nodes:
            k = n.get("k")
            if k in ("bin", "assignop") and n.get("op") in ("<<", ">>", "<<=", ">>="):
                if n["r"].get("k") == "lit" and n["l"].get("ty") == "u64" and not (
                        n["l"].get("k") == "lit"):
                    n_shift += 1
                    ctx.check("C01.B", "%s:shift@%s" % (fv.path, n_shift), n["r"]["v"] == 2,
                              "shift by 2", "register shifted by literal %s; one base is 2 bits" % n["r"]["v"],
                              line_of(n))
            if k == "bin" and n.get("op") == "&" and n["r"].get("k") == "lit" and n["l"].get("ty") == "u64":
                n_mask += 1
                ctx.check("C01.B", "%s:digitmask@%s" % (fv.path, n_mask), n["r"]["v"] == 3,
                          "digit mask 3", "digit extracted with mask %s; one base is 2 bits (mask 3)" % n["r"]["v"],
                          line_of(n))
    ctx.floor("C01.B", 8)   # at least the register updates and codec loops; the exact count is not an invariant



def symbolic_rules(ctx, fv, iter_root, loop):
    """S5: every byte that is not classified clean resets the run: on each symbolic path of one iteration that
    consumes a byte, either the clean test holds, or len becomes 0, nothing is emitted and no register picks
    up bits (unchanged or zeroed).  A shortcut that skips a byte without resetting builds k-mers across it."""
    from ..core import sym_paths
    from .minimiser import clean_polarity
    try:
        paths = sym_paths(fv, iter_root)
    except TooManyPaths:
        ctx.fail("C01.S5", "next:paths", "too many paths", line_of(loop))
        return
    bad = None
    n_other = 0
    for sp in paths:
        if any(exhaustion_verdict(t, pol) is True for t, pol, _ in sp.conds):
            continue
        clean = False
        for t, pol, _ in sp.conds:
            if t[0] == "bin" and t[1] in ("<", "<=", "==", "!=") and contains(t, lambda s_: s_ == class_term(TABLE)) \
                    and (t[2][0] == "lit" or t[3][0] == "lit"):
                if clean_polarity(t, pol):
                    clean = True
        if clean:
            continue
        # the property quantifies over k >= 1: a path that needs ksize == 0 is outside it
        if any((pol and t == mk_bin("==", SF("ksize"), L(0)))
               or (not pol and t in (mk_bin("<", L(0), SF("ksize")), mk_bin("!=", SF("ksize"), L(0))))
               for t, pol, _ in sp.conds):
            continue
        n_other += 1
        ln = sp.state.get(SF("len"), SF("len"))
        fval, rval = sp.state.get(SF("fval"), SF("fval")), sp.state.get(SF("rval"), SF("rval"))
        emitted = sp.ret is not None and some_of(sp.ret) is not None
        if ln != L(0):
            bad = ("a byte that is not classified as a clean base leaves `len` = %s (path: %s); it must reset the run "
                   "(len = 0), otherwise k-mers are produced across that byte"
                   % (show(ln), "; ".join(("" if p else "!") + show(t)[:60] for t, p, _ in sp.conds[-2:])), sp)
        elif emitted:
            bad = ("an item is emitted on a path where the byte is not clean", sp)
        elif fval not in (SF("fval"), L(0)) or rval not in (SF("rval"), L(0)):
            bad = ("the registers are updated on a path where the byte is not clean (fval' = %s, rval' = %s): class 4 "
                   "leaves stray bits that reach later k-mers" % (show(fval)[:80], show(rval)[:80]), sp)
    ctx.check("C01.S5", "next:non_clean_byte_resets", bad is None and n_other >= 1,
              "on all %d non-clean paths: len = 0, nothing emitted, registers untouched" % n_other,
              bad[0] if bad else "no path for a non-clean byte found", line_of(loop))
