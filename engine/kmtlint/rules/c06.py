"""C06 — reader returns every record once, in order, exact bases, for all containers."""
from .common import *
from . import c05

EXPLANATION = (
    "Rules on ktio::seq: (G) every gzip decoder the reader constructs is a multi-member decoder "
    "(flate2 MultiGzDecoder; GzDecoder stops after the first member by documentation); (X) the "
    "suffix -> format table read from SeqFormat::get equals the property's table and the '.gz' / '-' "
    "literals agree between SeqFormat::get, get_reader and the composition entry point; (A) id and "
    "bases are copied from bio's Record::id()/seq() (resolved callees) and the statistics pass sums "
    "seq().len(); (N) ordinal discipline (shared with C05.N/C); (S) statistics pass and iterator build "
    "the same reader type and call the same records() per format. Record parsing itself (line joining, "
    "CRLF, wrapping) is bio::io code outside the repository and is trusted, not analysed.")
ASSUMPTIONS = ["bio 2.0.3 fasta/fastq record parsing", "flate2 1.0.35: MultiGzDecoder reads all members, GzDecoder only the first"]

GET = "ktio::seq::SeqFormat::get"
READER = "ktio::seq::get_reader"
NEW = "ktio::seq::Sequences::new"
STATS = "ktio::seq::Sequences::seq_stats"
SUFFIX_SPEC = {".fq": "Fastq", ".fastq": "Fastq", ".fa": "Fasta", ".fasta": "Fasta", ".fna": "Fasta"}


def run(ctx):
    decoder_rule(ctx)
    suffix_rule(ctx)
    accessor_rule(ctx)
    from .c14 import stats_every_record
    stats_every_record(ctx, "C06.A")
    c05.ordinal_rule(ctx, "C06.N")
    c05.reader_ownership(ctx, "C06.N")
    siblings_rule(ctx)
    end_rule(ctx)
    consumers_rule(ctx)


def decoder_rule(ctx):
    n = 0
    for fv in ctx.all_views(lambda f: f["npath"].startswith("ktio::") or f["npath"].startswith("<ktio::")):
        for c in fv.nodes:
            if c.get("k") in ("call", "mcall") and cname(c).startswith("flate2::") and cname(c).endswith("::new"):
                n += 1
                ty = cname(c).split("::")[-2]
                ctx.check("C06.G", "%s:%s" % (fv.path, "gz_decoder"), ty in ("MultiGzDecoder",),
                          "gzip input decoded by %s" % cname(c),
                          "gzip input is decoded by `%s`, which stops after the first gzip member: records in "
                          "later members of a multi-member file (bgzip, concatenated .gz) are silently dropped; "
                          "use a MultiGzDecoder" % cname(c), line_of(c))
    if n < 1:
        ctx.fail("C06.G", "get_reader:gz_decoder:floor", "no flate2 decoder constructor found in ktio: the .gz "
                 "branch of get_reader is gone")


def ends_with_lits(fv, root=None):
    out = []
    for n in (walk(root) if root is not None else fv.nodes):
        if n.get("k") == "mcall" and cname(n).endswith("::ends_with"):
            t = fv.term(n["args"][0])
            if t[0] == "lit":
                out.append((n, t[1]))
    return out


def suffix_rule(ctx):
    fv = ctx.need("C06.X", GET)
    if fv is None:
        return
    # every path of the function: the suffix literals of the last condition taken positively -> the variant returned
    from ..core import sym_paths
    table = {}
    tested_terms = []
    for sp in sym_paths(fv, fv.body):
        res = sp.ret if sp.ret is not None else sp.value
        s = some_of(res) if res is not None else None
        if s is None or s[0] != "ctor":
            continue
        variant = s[1].split("::")[-1]
        pos = [(t, node) for t, pol, node in sp.conds
               if pol and (t[0] == "bin" and t[1] == "||" or (t[0] == "call" and t[1].endswith("::ends_with")))
               and contains(t, lambda x: x[0] == "call" and x[1].endswith("::ends_with"))]
        if not pos:
            continue
        t, node = pos[-1]

        def disjuncts(c):
            if c[0] == "bin" and c[1] == "||":
                return disjuncts(c[2]) + disjuncts(c[3])
            return [c]
        for x in disjuncts(t):
            if x[0] == "call" and x[1].endswith("::ends_with") and len(x) == 4 and x[3][0] == "lit":
                table[x[3][1]] = variant
                tested_terms.append(x[2])
    for suf, var in SUFFIX_SPEC.items():
        ctx.check("C06.X", "SeqFormat::get:%s" % suf, table.get(suf) == var, "%s -> %s" % (suf, var),
                  "suffix %s maps to %s, the property requires %s" % (suf, table.get(suf), var), fv.fn["sp"])
    extra = set(table) - set(SUFFIX_SPEC)
    ctx.check("C06.X", "SeqFormat::get:no_extra", not extra, "no other suffix recognised",
              "unexpected suffixes recognised: %s" % sorted(extra), fv.fn["sp"])
    # the .gz strip: ends_with(".gz") guards trim_end_matches(".gz")
    gz = [(n, l) for n, l in ends_with_lits(fv) if l not in SUFFIX_SPEC]
    trims = [n for n in fv.nodes if n.get("k") == "mcall" and cname(n).split("::")[-1] in
             ("trim_end_matches", "strip_suffix")]
    # guarded strip (`if ends_with(".gz") { trim }`) or the unconditional, idempotent trim_end_matches(".gz")
    ok = len(trims) == 1 and fv.term(trims[0]["args"][0]) == L(".gz") and (
        (len(gz) == 1 and gz[0][1] == ".gz") or (not gz and cname(trims[0]).endswith("trim_end_matches")))
    # the suffix tests must look at the stripped path
    tested = [fv.term(n["recv"]) for n, l in ends_with_lits(fv) if l in SUFFIX_SPEC]
    ok = ok and (bool(tested) or bool(tested_terms))
    ctx.check("C06.X", "SeqFormat::get:gz_strip", ok, "optional .gz stripped before the suffix test",
              "SeqFormat::get does not strip exactly the literal \".gz\" (tests %s, strips %s)"
              % ([l for _, l in gz], [show(fv.term(t["args"][0])) for t in trims]), fv.fn["sp"])
    # ... on every path on which the name ends in ".gz", each suffix test reads the STRIPPED name (a test evaluated
    # before the strip sees "x.fa.gz" and recognises nothing)
    from ..core import sym_paths as _sp
    raw = ("param", param_index(fv, "path"))
    bad_t = None
    n_gz = 0
    for sp in _sp(fv, fv.body):
        gz_true = any(pol and t[0] == "call" and t[1].endswith("::ends_with") and len(t) == 4 and t[3] == L(".gz")
                      for t, pol, _ in sp.conds)
        if not gz_true:
            continue
        n_gz += 1
        for t, pol, _ in sp.conds:
            for s_ in subterms(t):
                if s_[0] == "call" and s_[1].endswith("::ends_with") and len(s_) == 4 and s_[3][0] == "lit" and s_[3][1] in SUFFIX_SPEC \
                        and s_[2] == raw:
                    bad_t = s_
    if gz:
        ctx.check("C06.X", "SeqFormat::get:tests_after_strip", bad_t is None and n_gz >= 1,
                  "on the %d path(s) with a .gz name every suffix test reads the stripped name" % n_gz,
                  "on a path where the name ends in \".gz\" the test `%s` is evaluated on the unstripped name: "
                  "`x.fa.gz` / `x.fq.gz` are not recognised" % (show(bad_t) if bad_t else "?"), fv.fn["sp"])
    fr = ctx.need("C06.X", READER)
    if fr is not None:
        gz2 = [l for _, l in ends_with_lits(fr)]
        ctx.check("C06.X", "get_reader:gz_literal", gz2 == [".gz"], "get_reader tests the same \".gz\"",
                  "get_reader selects decompression by %s, SeqFormat::get strips \".gz\"" % gz2, fr.fn["sp"])
        # decoder only under is_zip
        dec = [c for c in fr.nodes if c.get("k") in ("call", "mcall") and cname(c).startswith("flate2::")]
        def gz_true(t, p):
            # (ends_with(".gz"), True)  or  (!ends_with(".gz"), False)
            if t[0] == "un" and t[1] == "!":
                return gz_true(t[2], not p)
            return p and t[0] == "call" and t[1].endswith("::ends_with") and len(t) == 4 and t[3] == L(".gz")
        okg = bool(dec) and all(any(gz_true(fr.term(c), p) for c, p in fr.guards(d)) for d in dec)
        ctx.check("C06.X", "get_reader:gz_guard", okg, "decoder used exactly when the path ends with .gz",
                  "the gzip decoder is not selected by the .gz test", line_of(dec[0]) if dec else fr.fn["sp"])
        stdin = [n for n in fr.nodes if n.get("k") == "bin" and n["op"] == "==" and L("-") in (fr.term(n["l"]), fr.term(n["r"]))]
        ctx.check("C06.X", "get_reader:stdin_literal", len(stdin) == 1, "\"-\" selects stdin",
                  "get_reader no longer maps exactly \"-\" to stdin", fr.fn["sp"])
    fo = ctx.view("composition::oligo::OligoComputer::vectorise")
    if fo is not None:
        stdin = [n for n in fo.nodes if n.get("k") == "bin" and n["op"] in ("==", "!=") and L("-") in (fo.term(n["l"]), fo.term(n["r"]))]
        ctx.check("C06.X", "oligo::vectorise:stdin_literal", len(stdin) == 1, "\"-\" routes stdin to the batch writer",
                  "OligoComputer::vectorise no longer tests the same \"-\" literal as get_reader", fo.fn["sp"])
    ctx.floor("C06.X", 11)


def accessor_rule(ctx):
    fv = ctx.need("C06.A", c05.NEXT)
    if fv is not None:
        _m, groups = c05.next_deliveries(fv)
        for variant, arm, delivered, _nothing in groups:
            if len(delivered) != 1 or delivered[0][1][0] != "struct":
                continue            # (reported by the ordinal rule)
            fs = dict(delivered[0][1][2])
            for want, field, conv in (("id", "id", ("to_string",)), ("seq", "seq", ("to_vec", "to_owned"))):
                t = fs.get(field)
                ok = False
                got = "<missing>"
                if t is not None:
                    got = show(t)
                    while t[0] == "call" and len(t) == 3 and t[1].split("::")[-1] in conv + ("into", "to_owned", "clone", "from"):
                        t = t[2]
                    if t[0] == "call":     # (the field types String / Vec<u8> make the copy; to_owned/into are transparent in terms)
                        ok = t[1] == "bio::io::%s::Record::%s" % (variant.lower(), want)
                ctx.check("C06.A", "next:%s:%s" % (variant.lower(), field), ok,
                          "%s copied from Record::%s()" % (field, want),
                          "Sequence.%s of a %s record is built from `%s`, expected a copy of bio's Record::%s()"
                          % (field, variant, got, want), line_of(arm["body"]))
        ctx.floor("C06.A", 4)
    fs_ = ctx.need("C06.A", STATS)
    if fs_ is not None:
        adds = [n for n in fs_.nodes if n.get("k") == "assignop" and n["op"] == "+="]
        seqlens = [a for a in adds if fs_.term(a["r"])[0] == "call" and fs_.term(a["r"])[1].endswith("::len")
                   and fs_.term(a["r"])[2][0] == "call" and fs_.term(a["r"])[2][1] in
                   ("bio::io::fasta::Record::seq", "bio::io::fastq::Record::seq")]
        from .c14 import counts_each_item
        counts = [l for l in fs_.nodes if l.get("k") == "for" and counts_each_item(fs_, l)]
        ctx.check("C06.A", "seq_stats:total_length", len(seqlens) == 2, "total_length += record.seq().len() in both arms",
                  "seq_stats does not add `seq().len()` of every record in both formats (found %d)" % len(seqlens),
                  fs_.fn["sp"])
        ctx.check("C06.A", "seq_stats:seq_count", len(counts) == 2, "seq_count += 1 per record in both arms",
                  "seq_stats does not count every record once in both formats (found %d)" % len(counts), fs_.fn["sp"])
        lit = struct_literal(fs_, "ktio::seq::SeqStats")
        if lit is not None:
            f = struct_fields(fs_, lit)
            # each field is fed by the accumulator of that role: the counter (+1 per record) and the length sum
            cnt_vars = set()
            len_vars = set()
            for l in fs_.nodes:
                if l.get("k") != "for":
                    continue
                for a in walk(l["body"]):
                    if a.get("k") in ("assignop", "assign"):
                        rt = fs_.term(a["r"])
                        if contains(rt, lambda s_: s_[0] == "call" and s_[1].endswith("Record::seq")):
                            len_vars.add(fs_.term(a["l"]))
                        elif a.get("k") == "assignop" and rt == L(1) or (a.get("k") == "assign" and contains(rt, lambda s_: s_[0] == "proj")):
                            cnt_vars.add(fs_.term(a["l"]))
            ok = f.get("seq_count") in cnt_vars and f.get("total_length") in len_vars and len(cnt_vars) == 1 and len(len_vars) == 1
            ctx.check("C06.A", "seq_stats:result", ok, "SeqStats{seq_count, total_length} not exchanged",
                      "SeqStats fields are filled from %s" % {k: show(v) for k, v in f.items()}, line_of(lit))


def siblings_rule(ctx):
    """seq_stats and Sequences::new: per format, same Reader::new(reader).records() chain"""
    fn, fs_ = ctx.need("C06.S", NEW), ctx.need("C06.S", STATS)
    if fn is None or fs_ is None:
        return
    def chains(fv):
        out = {}
        for n in fv.nodes:
            if n.get("k") == "mcall" and cname(n).endswith("Reader::records"):
                t = fv.term(n)
                fmt = cname(n).split("::")[2]
                arm = None
                cur = n
                for a in fv.ancestors(n):
                    if a.get("k") == "match":
                        for i, ar in enumerate(a["arms"]):
                            if any(x is cur or x is n for x in walk(ar["body"])):
                                arm = norm_path(ar["pat"].get("path", "")).split("::")[-1]
                        break
                    cur = a
                out[arm] = (fmt, repr(t))
        return out
    a, b = chains(fn), chains(fs_)
    ctx.check("C06.S", "new_vs_stats:readers", a == b and set(a) == {"Fasta", "Fastq"}
              and a.get("Fasta", ("",))[0] == "fasta" and a.get("Fastq", ("",))[0] == "fastq",
              "both passes use fasta::Reader for Fasta and fastq::Reader for Fastq on the same reader term",
              "Sequences::new %s and seq_stats %s do not build the same reader per format" % (a, b), fn.fn["sp"])



def reader_deps(ctx, prop):
    """Record-oriented properties ("one row / line per input record, in order") rest on the reader: decoder choice,
    suffix table, accessors, ordinal discipline and the statistics pass are re-checked under the property's ids."""
    d = dep(ctx, prop, "C06")
    decoder_rule(d)
    suffix_rule(d)
    accessor_rule(d)
    c05.ordinal_rule(d, "C06.N")
    c05.reader_ownership(d, "C06.N")
    end_rule(d)
    if prop != "C16":
        from . import c16
        for path in c16.SNIFFERS:           # which decoder runs is decided by the first byte of the content, not by the name
            c16.sniff_rule(dep(ctx, prop, "C16"), path)



def consumers_rule(ctx):
    """'row count of any subcommand run on the file' is an observation point: every record the reader delivers is
    consumed exactly once — batch writers push every record and flush every batch, workers process every taken record."""
    d = dep(ctx, "C06", "C05")
    for path, who in (("composition::oligo::OligoComputer::vectorise_batch", "oligo::vectorise_batch"),
                      ("composition::cgr::CgrComputer::vectorise", "cgr::vectorise"),
                      ("composition::oligocgr::OligoCgrComputer::vectorise", "oligocgr::vectorise"),
                      ("coverage::CovComputer::compute_coverages", "compute_coverages")):
        fv = ctx.view(path)
        if fv is not None:
            rule_flush_pairing(d, "C05.F", fv, who)
            rule_ordered_collects(d, "C05.O", fv, 2 if who == "compute_coverages" else 1)    # no record dropped or doubled
            rule_sink_sequential(d, "C05.O", fv, who)                                         # between the batch and the file
    fm = ctx.view(c05.MMAP)
    if fm is not None:
        rule_taken_reaches(d, "C05.T", fm, "vectorise_mmap",
                           lambda n: n.get("k") == "mcall" and cname(n) == "ktio::mmap::MMWriter::write_at", "row write")
    from . import c07, c08
    fcov_ = ctx.view(c08.COV)
    if fcov_ is not None:
        c08.inputs_rule(dep(ctx, "C06", "C08"), fcov_)       # rows of `cov` are the records of --input, not of --alt-input
    fc = ctx.view(c07.CHUNK)
    if fc is not None:
        c07.take_rule(dep(ctx, "C06", "C07"), fc)
        fn_ = ctx.view(c07.COUNT)
        if fn_ is not None:
            c07.chunk_rule(dep(ctx, "C06", "C07"), fn_, fc)      # every chunk pass starts fresh; the run ends only at end of input
    for path, who in (("misc::minimisers::bin_sequences", "bin_sequences"), ("misc::minimisers::seq_to_min", "seq_to_min")):
        fv = ctx.view(path)
        if fv is not None:
            rule_taken_reaches(dep(ctx, "C06", "C10"), "C10.I", fv, who,
                               lambda n: n.get("k") == "for" and "MinimiserGenerator<" in n.get("iter_ty", ""), "run loop")
            rule_spawn_count(dep(ctx, "C06", "C10"), "C10.L", fv, who)
    # .. which needs a worker: `threads 0 = auto` is translated before the spawn loops, the defaults are >= 1
    from . import c10
    fs2_, fm2_ = ctx.view(c10.S2M), ctx.view(c10.M2S)
    if fs2_ is not None and fm2_ is not None:
        c10.agree_rule(dep(ctx, "C06", "C10"), fs2_, fm2_)
    for path, who, tag in ((c07.CHUNK, "count_chunk", "C07"), (c05.MMAP, "vectorise_mmap", "C05")):
        fw_ = ctx.view(path)
        if fw_ is not None:
            rule_spawn_count(dep(ctx, "C06", tag), tag + ".L", fw_, who)
    for adt in ("counter::CountComputer", "coverage::CovComputer", "composition::oligo::OligoComputer",
                "composition::cgr::CgrComputer", "composition::oligocgr::OligoCgrComputer"):
        rule_threads_default(ctx, "C06.W", adt)
    # the sizing pass of the mapped writer reads the SAME stream as the writing pass (same opener: gzip, stdin)
    if fm is not None:
        c05.stats_rule(dep(ctx, "C06", "C05"), fm)
        # .. and multiplies the record count by the width of the rows actually written (a width cached before
        # `set_delim` / computed for another delimiter cuts the last rows: fewer rows than records)
        from . import c14
        c14.size_rule(dep(ctx, "C06", "C14"), fm)
    # "row count of any subcommand": the CLI hands `-t 0` (auto) to the library only after translating it — the mapped
    # writer spawns `0..threads` workers, and no worker means no record is ever taken from the reader
    from . import c15
    fcli_ = ctx.view(c15.CLI, c15.UNIT)
    if fcli_ is not None:
        c15.flow_rule(dep(ctx, "C06", "C15"), fcli_)



def end_rule(ctx):
    """Sequences::next yields None exactly when the underlying bio record iterator is exhausted; a record the parser
    rejects is not turned into an end of input (workers sharing the reader would each see a different 'end')."""
    fv = ctx.need("C06.E", c05.NEXT)
    if fv is None:
        return
    from ..core import sym_paths

    def is_arm(t):
        return t[0] == "arm"

    def is_take(t):
        return t[0] == "iflet" and t[1][0] == "ptstruct" and t[1][1].endswith("::Some") and t[2][0] == "call" \
            and t[2][1].endswith("Iterator::next") and contains(t[2], lambda s_: s_[0] == "local" or s_[0] == "field")
    nn = ns = 0
    bad = None
    for sp in sym_paths(fv, fv.body):
        res = sp.ret if sp.ret is not None else sp.value
        conds = [(t, pol, n) for t, pol, n in sp.conds if not is_arm(t)]
        if res is not None and some_of(res) is not None:
            ns += 1
            if not any(is_take(t) and pol for t, pol, n in conds):
                bad = bad or (sp, "a path returns a record without having taken one from the parser")
            continue
        nn += 1
        extra = [(t, pol, n) for t, pol, n in conds if not (is_take(t) and not pol)]
        if extra or not conds:
            t, pol, n = extra[0] if extra else (("none",), True, None)
            bad = bad or (sp, "a path returns None under `%s` = %s: the end of the records is signalled although the parser "
                              "still delivered an item (e.g. a damaged record is swallowed as end of input — each worker "
                              "sharing the reader then stops at a different place and the run reports success)"
                          % (show(t), pol))
    ctx.check("C06.E", "next:none_only_at_end", bad is None and nn >= 2 and ns >= 2,
              "None is returned on %d path(s), each exactly when the bio iterator returned None; %d path(s) return a record"
              % (nn, ns), bad[1] if bad else "paths of next(): %d None, %d Some (expected >= 2 each)" % (nn, ns), fv.fn["sp"])
