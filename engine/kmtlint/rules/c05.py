"""C05 — oligo rows follow input order for any threads, batching, writer path, container."""
from .common import *
from ..core import straightline, Unsupported, alpha

EXPLANATION = (
    "Structural conditions that make row order independent of every schedule: (L) workers take a "
    "record only through a MutexGuard of the shared reader; (C) Sequence values are constructed and "
    "current_record written only inside ktio::seq; (N) both arms of Sequences::next bump the ordinal "
    "exactly once on the Some path and hand out the pre-increment value (straight-line term "
    "composition); (O) the mmap row offset is the polynomial row_len*n + header_len over the same "
    "record's ordinal and the header string written at 0; (P) the batch collect is an indexed "
    "order-preserving rayon pipeline; (W) the sink is written only on the sequential path; (F) "
    "push->flush->clear typestate and a tail flush conditioned only on buffer non-emptiness; (H) header "
    "once, before any row; (R) batch and mmap rows are built from equal terms; (S) mmap only under "
    "norm; (Q) statistics pass and iteration pass open the same input. Does not compare bytes of runs.")
ASSUMPTIONS = ["rayon's collect into Vec preserves index order for indexed producers (documented)",
               "container independence reduces to C06"]

BATCH = "composition::oligo::OligoComputer::vectorise_batch"
MMAP = "composition::oligo::OligoComputer::vectorise_mmap"
VEC = "composition::oligo::OligoComputer::vectorise"
ONE = "composition::oligo::OligoComputer::vectorise_one"
NEXT = SEQ_NEXT


def run(ctx):
    fb = ctx.need("C05.P", BATCH)
    fm = ctx.need("C05.L", MMAP)
    if fm is not None:
        rule_locked_take(ctx, "C05.L", fm, 1)
        if rule_spawn_count(ctx, "C05.L", fm, "vectorise_mmap") < 1:
            ctx.fail("C05.L", "vectorise_mmap:spawn_count:floor", "no `for _ in 0..threads` worker spawn loop found", fm.fn["sp"])
    for path, n in (("counter::CountComputer::count_chunk", 1), ("misc::minimisers::bin_sequences", 1),
                    ("misc::minimisers::seq_to_min", 1)):
        fv = ctx.need("C05.L", path)
        if fv is not None:
            rule_locked_take(ctx, "C05.L", fv, n)
    ctx.floor("C05.L", 4)
    reader_ownership(ctx, "C05.C")
    ordinal_rule(ctx, "C05.N")
    if fm is not None:
        offset_rule(ctx, fm)
        stats_rule(ctx, fm)
        rule_taken_reaches(ctx, "C05.T", fm, "vectorise_mmap",
                           lambda n: n.get("k") == "mcall" and cname(n) == "ktio::mmap::MMWriter::write_at", "row write")
    if fb is not None:
        rule_ordered_collects(ctx, "C05.P", fb, 1)
        rule_sink_sequential(ctx, "C05.W", fb, "oligo::vectorise_batch")
        rule_flush_pairing(ctx, "C05.F", fb, "oligo::vectorise_batch")
    if fb is not None and fm is not None:
        header_rule(ctx, fb, fm)
        row_agreement(ctx, fb, fm)
    selection_rule(ctx, fm)
    # container independence reduces to the reader: decoder choice and suffix table
    from . import c06
    c06.decoder_rule(dep(ctx, "C05", "C06"))
    c06.suffix_rule(dep(ctx, "C05", "C06"))
    c06.accessor_rule(dep(ctx, "C05", "C06"))
    # "the output bytes" are exactly this run's rows: the mapped file is truncated and sized before mapping
    from . import c17, c15, c14
    c17.open_rules(dep(ctx, "C05", "C17"))
    if fm is not None:
        c14.size_rule(dep(ctx, "C05", "C14"), fm)       # rows sit at header + n * row width: the width is the row's
    rule_threads_default(ctx, "C05.L", "composition::oligo::OligoComputer")
    from . import c03
    c03.header_line_rule(dep(ctx, "C05", "C03"))          # both writers emit the same header bytes
    for fw_, who_ in ((fm, "oligo::vectorise_mmap"), (fb, "oligo::vectorise_batch")):
        if fw_ is not None:
            rule_output_always_created(dep(ctx, "C05", "C17"), "C17.W", fw_, who_)      # ... also for an input without records
    # identical bytes for every thread count incl. the CLI default: at least one worker is always spawned
    fcli = ctx.view(c15.CLI, c15.UNIT)
    if fcli is not None:
        c15.flow_rule(dep(ctx, "C05", "C15"), fcli, arms=("Oligo",))
    # fixed-width rows (and hence row offsets) need finite values: divisor guard of the per-record vector
    fo = ctx.view(ONE)
    if fo is not None:
        acc_family(dep(ctx, "C05", "C04"), "C04.A", fo, "composition::oligo::vectorise_one", ("param", param_index(fo, "seq")), SF("norm"))


def reader_ownership(ctx, rule):
    """Sequence{..} literals and writes of current_record only inside ktio::seq."""
    n_lit = n_w = 0
    for fv in ctx.all_views():
        for n in fv.nodes:
            if n.get("k") == "struct" and norm_path(n.get("adt", "")) == "ktio::seq::Sequence":
                n_lit += 1
                ctx.check(rule, "%s:Sequence_literal@%d" % (fv.path, n_lit), fv.path == NEXT,
                          "Sequence constructed in Sequences::next",
                          "a `Sequence` (record + ordinal) is constructed outside Sequences::next: its ordinal "
                          "is not the reader's", line_of(n))
            if n.get("k") in ("assign", "assignop") and n["l"].get("k") == "field" \
                    and n["l"]["name"] == "current_record" and n["l"].get("adt") == "ktio::seq::Sequences":
                n_w += 1
                ctx.check(rule, "%s:current_record_write@%d" % (fv.path, n_w), fv.path.startswith("<ktio::seq::")
                          or fv.path.startswith("ktio::seq::"), "ordinal written inside ktio::seq",
                          "`current_record` is written outside ktio::seq (the field is pub)", line_of(n))
            if n.get("k") == "struct" and norm_path(n.get("adt", "")) == "ktio::seq::Sequences":
                fs = {f["name"]: fv.term(f["e"]) for f in n.get("fields", [])}
                n_w += 1
                ctx.check(rule, "%s:Sequences_literal@%d" % (fv.path, n_w),
                          fv.path == "ktio::seq::Sequences::new" and fs.get("current_record") == L(0),
                          "reader starts at ordinal 0",
                          "a Sequences reader is built with current_record = %s outside/other than new()=0"
                          % show(fs.get("current_record", ("none",))), line_of(n))
    # the underlying record iterator is consumed only by Sequences::next: any other consumer (an `nth`/`skip`
    # override, a helper, another crate — the field is pub) would take records without advancing the ordinal
    users = {}
    for fv in ctx.all_views():
        for n in fv.nodes:
            if n.get("k") == "field" and n["name"] == "records" and n.get("adt") == "ktio::seq::Sequences":
                users.setdefault(fv.path, n)
    extra = sorted(p_ for p_ in users if p_ != NEXT)
    ctx.check(rule, "Sequences.records:consumers", not extra and NEXT in users,
              "the underlying record iterator is touched only by Sequences::next",
              "`Sequences.records` is also used by %s: records can be consumed without the ordinal advancing "
              "(numbering 0,1,2,.. would restart or skip)" % extra, line_of(users[extra[0]]) if extra else None)
    if n_lit < 1:
        ctx.fail(rule, "Sequence_literal:floor", "no Sequence literal found in Sequences::next")
    if n_w < 2:
        ctx.fail(rule, "current_record:floor", "expected an ordinal initialisation and an update in ktio::seq, found %d" % n_w)


def next_deliveries(fv):
    """paths through the whole body of Sequences::next, grouped by the arm of `match self.records` they take:
    [(variant, arm, delivered [(path, record term)], nothing [path])] -- wherever the Sequence is assembled
    (inside the arms or once after the match)"""
    from ..core import sym_paths, pat_term
    m = next((n for n in fv.nodes if n.get("k") == "match"
              and n["e"].get("k") == "field" and n["e"]["name"] == "records"), None)
    if m is None:
        return None, []
    allp = sym_paths(fv, fv.body)
    out = []
    for i, arm in enumerate(m["arms"]):
        variant = norm_path(arm["pat"].get("path", "")).split("::")[-1] or "arm%d" % i
        pt = pat_term(arm["pat"])
        paths = [sp for sp in allp if any(nd is m and t[0] == "arm" and t[2] == pt for t, _, nd in sp.conds)]
        delivered = []
        nothing = []
        for sp in paths:
            res = sp.ret if sp.ret is not None else sp.value
            if res is None:
                continue
            if some_of(res) is not None:
                delivered.append((sp, some_of(res)))
            elif is_none(res):
                nothing.append(sp)
        out.append((variant, arm, delivered, nothing))
    return m, out


def ordinal_rule(ctx, rule):
    fv = ctx.need(rule, NEXT)
    if fv is None:
        return
    m, groups = next_deliveries(fv)
    if m is None:
        ctx.fail(rule, "next:dispatch", "match on self.records not found", fv.fn["sp"])
        return
    cr = SF("current_record")
    sigs = []
    for variant, arm, delivered, nothing in groups:
        if len(delivered) != 1 or not nothing:
            ctx.fail(rule, "next:%s:some_path" % variant, "expected one path delivering Some(Sequence{..}) and a path "
                     "delivering None in the %s arm (found %d / %d)" % (variant, len(delivered), len(nothing)), line_of(arm["body"]))
            continue
        sp, rec = delivered[0]
        after = sp.state.get(cr, cr)
        ctx.check(rule, "next:%s:bump" % variant, poly(after) == poly(mk_bin("+", cr, L(1))),
                  "ordinal += 1 exactly once on the Some path",
                  "ordinal after a delivered record is `%s`, expected current_record + 1" % show(after), line_of(arm["body"]))
        st = dict(rec[2]) if rec[0] == "struct" else None
        nt = st.get("n") if st else None
        okn = nt is not None and poly(nt) == poly(cr)
        ctx.check(rule, "next:%s:n" % variant, okn, "n = pre-increment ordinal (%s)" % (show(nt) if nt else "?"),
                  "delivered ordinal is `%s`; expected the value of current_record before the increment "
                  "(numbering 0,1,2,.. without gaps)" % (show(nt) if nt else "<no Sequence{..} delivered>"), line_of(arm["body"]))
        okz = all(sp2.state.get(cr, cr) == cr for sp2 in nothing)
        ctx.check(rule, "next:%s:none_path" % variant, okz, "no ordinal change when nothing is delivered",
                  "current_record changes on a path that delivers no record", line_of(arm["body"]))
        # a record is delivered exactly when the underlying reader yields one
        took = [t for t, pol, _ in sp.conds if t[0] == "iflet" and pol and t[2][0] == "call" and t[2][1].endswith("Iterator::next")]
        ctx.check(rule, "next:%s:one_per_record" % variant, len(took) == 1, "one Sequence per record of the underlying reader",
                  "the delivering path does not take exactly one record from the underlying reader", line_of(arm["body"]))
        if st is not None:
            st2 = dict(st)
            st2["n"] = ("npoly", repr(sorted(poly(nt).items()))) if nt is not None else ("none",)
            sig = repr(alpha(("sig", repr(sorted(poly(after).items())), tuple(sorted(st2.items()))))) \
                .replace("fastq", "fasta").replace("Fastq", "Fasta")
            sigs.append((variant, sig))
    if len(sigs) == 2:
        ctx.check(rule, "next:arms_agree", sigs[0][1] == sigs[1][1], "FASTA and FASTQ arms build the record identically",
                  "the %s and %s arms of Sequences::next differ in how they build the record/ordinal"
                  % (sigs[0][0], sigs[1][0]), fv.fn["sp"])
    ctx.floor(rule, 9)


def poly_or_repr(t, cr):
    try:
        if contains(t, lambda s_: s_ == cr):
            return repr(sorted(poly(t).items()))
    except Exception:
        pass
    return repr(t)


def write_at_calls(fv):
    return [n for n in fv.nodes if n.get("k") == "mcall" and cname(n) == "ktio::mmap::MMWriter::write_at"]


def offset_rule(ctx, fm, R="C05.O"):
    ws = write_at_calls(fm)
    rows = [w for w in ws if fm.in_closure_passed_to(w, is_spawn) is not None]
    if len(rows) != 1:
        ctx.fail(R, "vectorise_mmap:row_write", "expected exactly one row write_at inside the workers, found %d" % len(rows),
                 fm.fn["sp"])
        return
    w = rows[0]
    data_raw, pos = fm.term(w["args"][0]), fm.term(w["args"][1])
    data = as_format_row(fm, data_raw)
    # ROW must be a format("{}\n", join(.., delim)) term
    if data[0] != "format":
        ctx.fail(R, "vectorise_mmap:row_term", "row data `%s` is not a formatted row" % show(data), line_of(w))
        return
    header_t, hkind, _hw = header_value(fm)
    def sym(t):
        if is_len_of(t, data) or is_len_of(t, data_raw):
            return "len(ROW)"
        if header_t is not None and is_len_of(t, header_t):
            return "len(HEADER)"
        if t[0] == "field" and t[2] == "n":
            return "n"
        return show(t)
    pp = poly(pos, ctx.prog.consts, sym)
    ctx.check(R, "vectorise_mmap:offset", pp == {("len(ROW)", "n"): 1, ("len(HEADER)",): 1},
              "offset = len(ROW)·n + len(HEADER)",
              "row offset normalises to `%s`, expected len(ROW)·n + len(HEADER) with ROW the very string written"
              % pshow(pp), line_of(w))
    # same record: n and seq of one record value
    ns = [s for s in subterms(pos) if s[0] == "field" and s[2] == "n"]
    seqs = [s for s in subterms(data) if s[0] == "field" and s[2] == "seq"]
    same = len(ns) == 1 and len(seqs) >= 1 and all(s[1] == ns[0][1] for s in seqs)
    taken = same and contains(ns[0][1], lambda s: s[0] == "call" and s[1].endswith("Iterator::next"))
    ctx.check(R, "vectorise_mmap:same_record", bool(same and taken),
              "ordinal and bases come from the one record taken under the lock",
              "the ordinal used for the offset (`%s`) and the bases of the row (`%s`) do not come from the same "
              "taken record" % ([show(x) for x in ns], [show(x) for x in seqs][:2]), line_of(w))
    # header write at 0 with the same header string
    hw = [x for x in ws if x not in rows]
    okh = len(hw) == 1 and fm.term(hw[0]["args"][1]) == L(0) and header_t is not None \
        and fm.term(hw[0]["args"][0]) == header_t
    ctx.check(R, "vectorise_mmap:header_at_0", okh, "header bytes written at offset 0",
              "header is not written once at offset 0 from the string whose length shifts the rows",
              line_of(hw[0]) if hw else fm.fn["sp"])


def stats_rule(ctx, fm):
    from .c14 import stats_every_record
    stats_every_record(ctx, "C05.Q")
    stats = fm.calls_to("ktio::seq::Sequences::seq_stats")
    news = fm.calls_to("ktio::seq::Sequences::new")
    ok = len(stats) == 1 and len(news) == 1 and \
        [fm.term(a) for a in stats[0]["args"]] == [fm.term(a) for a in news[0]["args"]]
    ctx.check("C05.Q", "vectorise_mmap:same_input", ok,
              "seq_stats and Sequences::new receive equal (format, reader) terms",
              "the sizing pass and the row pass do not open the same (format, reader): %s vs %s"
              % ([show(fm.term(a)) for a in stats[0]["args"]] if stats else "?",
                 [show(fm.term(a)) for a in news[0]["args"]] if news else "?"),
              line_of(stats[0]) if stats else fm.fn["sp"])
    if stats:
        sc = [s for s in fm.nodes if s.get("k") == "field" and s["name"] == "seq_count"]
        ctx.check("C05.Q", "vectorise_mmap:rows_from_count", len(sc) == 1, "file sized from seq_count",
                  "mapped size does not use SeqStats::seq_count", line_of(stats[0]))


def header_rule(ctx, fb, fm):
    # batch: one write_all(header) guarded by self.header, before pool.install
    ws = [n for n in fb.nodes if n.get("k") == "mcall" and cname(n).endswith("Write::write_all")]
    def mentions_header(t):
        if contains(t, lambda s: s[0] == "call" and s[1].endswith("::get_header")):
            return True
        return any(p_[0] == "term" and contains(p_[1], lambda s: s[0] == "call" and s[1].endswith("::get_header"))
                   for p_ in string_pieces(fb, t))
    hw = [n for n in ws if mentions_header(fb.term(n["args"][0]))]
    ok = len(hw) == 1
    if ok:
        gs = [(fb.term(c), p) for c, p in fb.guards(hw[0], with_asserts=False)]
        ok = gs == [(SF("header"), True)]
        top = fb.body.get("stmts", []) + ([fb.body["expr"]] if fb.body.get("expr") else [])
        def idx_of(node):
            for i, s in enumerate(top):
                if s is node or any(x is node for x in walk(s)):
                    return i
            return None
        inst = fb.calls_to("rayon::ThreadPool::install")
        ok = ok and inst and idx_of(hw[0]) is not None and idx_of(hw[0]) < idx_of(inst[0])
        ok = ok and fb.in_closure_passed_to(hw[0], lambda c: True) is None
    hw_batch = hw
    ctx.check("C05.H", "vectorise_batch:header_once", bool(ok), "header written once under self.header before any row",
              "batch path: header line is not written exactly once, under `self.header`, before the batches",
              line_of(hw[0]) if hw else fb.fn["sp"])
    ws = write_at_calls(fm)
    hw = [w for w in ws if fm.in_closure_passed_to(w, is_spawn) is None]
    ok = len(hw) == 1 and [(fm.term(c), p) for c, p in fm.guards(hw[0], with_asserts=False)] == [(SF("header"), True)]
    ctx.check("C05.H", "vectorise_mmap:header_once", ok, "header written once under self.header outside the workers",
              "mmap path: header is not written exactly once under `self.header` outside the worker closures",
              line_of(hw[0]) if hw else fm.fn["sp"])
    # no normally-ending exit before the header write: `if nothing_to_do { return Ok(()) }` placed ahead of it drops the
    # column line for exactly the inputs that take the exit (error exits — `Err(..)`, `?` — are not results)
    for fv_, who_, hw_ in ((fb, "vectorise_batch", hw_batch), (fm, "vectorise_mmap", hw)):
        bad = None
        if hw_:
            order = {id(x): i for i, x in enumerate(fv_.nodes)}
            for r in fv_.nodes:
                if r.get("k") != "ret" or order.get(id(r), 1 << 60) > order.get(id(hw_[0]), -1):
                    continue
                if fv_.enclosing(r, ("closure",)) is not None:
                    continue
                t = fv_.term(r["e"]) if r.get("e") is not None else ("unit",)
                if (t[0] == "call" and t[1].endswith("::Err")) or t[0] == "try":
                    continue
                if (SF("header"), False) in [(fv_.term(c), p) for c, p in fv_.guards(r, with_asserts=False)]:
                    continue
                bad = r
                break
        ctx.check("C05.H", "%s:header_before_exit" % who_, bad is None,
                  "no normally-ending exit precedes the header write",
                  "%s can return normally before the header line is written: `-H` then adds no column line for the "
                  "inputs that take this exit" % who_, line_of(bad) if bad is not None else None)
    # the header string itself (mutable local assigned under self.header): size bookkeeping
    ht, hkind, _ = header_value(fm)
    asg = [n for n in fm.nodes if n.get("k") == "assign" and n["l"].get("k") == "local" and n["l"]["name"] == "header"]
    if hkind == "conditional":
        ok2 = True
    else:
        ok2 = hkind == "mutable" and len(asg) == 1 and \
            [(fm.term(c), p) for c, p in fm.guards(asg[0], with_asserts=False)] == [(SF("header"), True)]
        if ok2:
            b = fm.binds.get(ht[2])
            it = fm.term(b["val"][1]) if b and b["val"][0] == "node" else ("none",)
            ok2 = it[0] == "call" and it[1].endswith("String::new")
    ctx.check("C05.H", "vectorise_mmap:header_string", ok2, "header string is empty unless self.header",
              "the header string is not (String::new() assigned once under `self.header`) nor "
              "`if self.header { .. } else { String::new() }`", line_of(asg[0]) if asg else fm.fn["sp"])


def row_signature(fv, root, norm_branch=True):
    rows = find_rows(fv, root)
    vals = [(n, ft) for n, ft in formats_in(fv, root) if len(ft[1]) == 1 and ft[1][0][0] == "arg"]
    sig = {"rows": [("<values>.join(delim) + newline", show(d)) for n, j, d in rows]}
    vsig = []
    for n, ft in vals:
        gs = [(fv.term(c), p) for c, p in fv.guards(n)]
        if (SF("norm"), False) in gs:
            continue
        prec = ft[1][0][3]
        pv = prec[1] if prec and prec[0] == "lit" else (prec[1][1] if prec and prec[1][0] == "lit" else None)
        vsig.append((ft[1][0][2], pv))
    sig["values"] = vsig
    ones = [n for n in (walk(root) if root is not None else fv.nodes) if n.get("k") == "mcall" and cname(n) == ONE]
    sig["source"] = ["vectorise_one(self, <record>.seq)" if fv.term(o["args"][0])[0] == "field"
                     and fv.term(o["args"][0])[2] == "seq" else show(fv.term(o)) for o in ones]
    return sig


def row_agreement(ctx, fb, fm):
    rows = [w for w in write_at_calls(fm) if fm.in_closure_passed_to(w, is_spawn) is not None]
    root = fm.enclosing(rows[0], ("closure",)) if rows else None
    sb = row_signature(fb, None)
    sm = row_signature(fm, root)
    ctx.check("C05.R", "batch_vs_mmap:row", sb == sm and len(sb["rows"]) == 1 and len(sb["values"]) == 1
              and len(sb["source"]) == 1,
              "both writer paths build rows as %s" % sb,
              "the normalised row of the batch path %s and of the mmap path %s are built differently: the two "
              "writer strategies would not produce identical bytes" % (sb, sm), fm.fn["sp"])


def selection_rule(ctx, fm, R="C05.S"):
    fv = ctx.need(R, VEC)
    if fv is None:
        return
    calls = fv.calls_to(MMAP)
    ok = False
    detail = ""
    if len(calls) == 1:
        gs = [(fv.term(c), p) for c, p in fv.guards(calls[0])]
        detail = str([("" if p else "!") + show(t) for t, p in gs])
        for t, p in gs:
            # not (A || !norm)  => norm
            if not p and t[0] == "bin" and t[1] == "||" and ("un", "!", SF("norm")) in (t[2], t[3]):
                ok = True
            if p and t == SF("norm"):
                ok = True
            if p and t[0] == "bin" and t[1] == "&&" and SF("norm") in (t[2], t[3]):
                ok = True
    ctx.check(R, "vectorise:mmap_only_when_norm", ok, "mmap path selected only when norm holds (%s)" % detail,
              "vectorise() can reach the fixed-width mmap writer without `norm` (guards: %s)" % detail,
              line_of(calls[0]) if calls else fv.fn["sp"])
    # the choice is exactly "a named input file AND normalised": evaluated for the four combinations
    if len(calls) == 1:
        def ev(t, stdin, norm):
            if t == SF("norm"):
                return norm
            if t[0] == "bin" and t[1] in ("==", "!=") and L("-") in (t[2], t[3]) and SF("in_path") in (t[2], t[3]):
                return stdin if t[1] == "==" else (not stdin)
            if t[0] == "un" and t[1] == "!":
                v = ev(t[2], stdin, norm)
                return None if v is None else (not v)
            if t[0] == "bin" and t[1] in ("&&", "||"):
                a, b = ev(t[2], stdin, norm), ev(t[3], stdin, norm)
                if a is None or b is None:
                    return None
                return (a and b) if t[1] == "&&" else (a or b)
            if t[0] == "lit" and isinstance(t[1], bool):
                return t[1]
            return None
        bad_combo = None
        for stdin in (False, True):
            for norm in (False, True):
                vals = [ev(t, stdin, norm) for t, p in gs]
                if any(v is None for v in vals):
                    bad_combo = ("a condition other than `in_path == \"-\"` / `norm` decides the writer", None)
                    break
                reached = all(v == p for v, (t, p) in zip(vals, gs))
                if reached != ((not stdin) and norm):
                    bad_combo = ("stdin=%s norm=%s selects the %s writer" % (stdin, norm, "mmap" if reached else "batch"), None)
            if bad_combo:
                break
        ctx.check(R, "vectorise:writer_choice", bad_combo is None,
                  "the mmap writer is chosen exactly for a named input file with norm (4 combinations evaluated)",
                  "the writer selection is wrong: %s (guards: %s) — the mapped writer needs a file it can read twice and "
                  "fixed-width rows; stdin or counts must take the batch writer" % (bad_combo[0] if bad_combo else "", detail),
                  line_of(calls[0]))
    # only caller
    callers = []
    for v in ctx.all_views():
        if v.calls_to(MMAP):
            callers.append(v.path)
    ctx.check(R, "vectorise_mmap:callers", callers == [VEC], "vectorise_mmap called only from vectorise",
              "vectorise_mmap is called from %s" % callers, fm.fn["sp"] if fm else None)
    if fm is not None:
        asserts = [n for n in fm.nodes if n.get("k") == "if" and fm.term(n["cond"]) == ("un", "!", SF("norm"))
                   and diverges(n["then"])]
        ctx.check(R, "vectorise_mmap:assert_norm", len(asserts) >= 1, "assert!(self.norm) present",
                  "vectorise_mmap no longer asserts `self.norm` (fixed-width rows are assumed)", fm.fn["sp"])



def header_value(fm):
    """(term, kind) of the header string of vectorise_mmap: the data of the write_at outside the workers.
    kind = "mutable" (String::new() then assigned under self.header) or "conditional" (if self.header {..} else {new()})."""
    ws = write_at_calls(fm)
    hw = [w for w in ws if fm.in_closure_passed_to(w, is_spawn) is None]
    if len(hw) != 1:
        return None, None, None
    t = fm.term(hw[0]["args"][0])
    if t[0] == "local":
        return t, "mutable", hw[0]
    if t[0] == "if" and t[1] == SF("header"):
        empty = t[3]
        if empty[0] == "call" and empty[1].endswith("String::new"):
            return t, "conditional", hw[0]
    return t, "other", hw[0]
