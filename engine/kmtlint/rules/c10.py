"""C10 — minimiser outputs: s2m lists each record's runs; m2s is its exact inversion."""
from .common import *
from ..core import alpha

EXPLANATION = (
    "Rules on misc::minimisers: (L) workers take records through the reader's MutexGuard; (W) on every "
    "path from a taken record exactly one write_all is reached, on the writer's MutexGuard, whose data "
    "is join(mins, TAB) with mins = [record.id, one text per iterator item, newline] in that order; (R) "
    "run text = \"{}:{}-{}\"(numeric_to_kmer(k, msize), s, e) with (k,s,e) the item components in order "
    "and msize the value given to the iterator; (I) the inversion inserts equal (id, s, e) tuples in the "
    "and_modify and or_insert arms through the atomic entry idiom, keyed by the same k-mer text, and "
    "writes one line per entry after the scope; (G) both functions build the iterator and resolve "
    "threads == 0 identically; (U) a window argument computed from a runtime length is clamped to >= m. "
    "Does not compare output sets of real runs.")
ASSUMPTIONS = ["scc entry API atomic per key", "C09 for the iterator itself"]

S2M = "misc::minimisers::seq_to_min"
M2S = "misc::minimisers::bin_sequences"
MGEN_NEW = ("kmer::minimiser::MinimiserGenerator::new", "kmer::kmer_minimisers::KmerMinimiserGenerator::new")
N2K = "kmer::numeric_to_kmer"


def mgen_term(fv):
    """the iterator expression the record loop iterates"""
    loops = [n for n in fv.nodes if n.get("k") == "for" and "MinimiserGenerator<" in n.get("iter_ty", "")]
    return loops


def run(ctx):
    fs, fm = ctx.need("C10.W", S2M), ctx.need("C10.I", M2S)
    for fv in (fs, fm):
        if fv is not None:
            rule_locked_take(ctx, "C10.L", fv, 1)
            rule_spawn_count(ctx, "C10.L", fv, fv.path.split("::")[-1])
    if fs is not None:
        s2m_rules(ctx, fs)
    if fm is not None:
        m2s_rules(ctx, fm)
        rule_taken_reaches(ctx, "C10.I", fm, "bin_sequences",
                           lambda n: n.get("k") == "for" and "MinimiserGenerator<" in n.get("iter_ty", ""), "run loop")
    if fs is not None and fm is not None:
        agree_rule(ctx, fs, fm)
    window_rule(ctx, "C10.U")
    # the runs listed are those of the minimiser iterator, rendered by numeric_to_kmer
    from . import c09, c02
    c09.run(dep(ctx, "C10", "C09"))
    tab = (ctx.prog.consts.get(c02.TABLE) or {}).get("bytes")
    if tab is not None:
        c02.decode_rules(dep(ctx, "C10", "C02"), tab)
    from . import c06
    c06.reader_deps(ctx, "C10")
    from . import c15, c17
    c15.cli_arm_dep(ctx, "C10", ('Min',))
    c17.open_rules(dep(ctx, "C10", "C17"))          # "exactly one line per input record": the listing is truncated on open


def s2m_rules(ctx, fv):
    msize = ("param", param_index(fv, "msize"))
    loops = mgen_term(fv)
    if len(loops) != 1:
        ctx.fail("C10.W", "seq_to_min:run_loop", "expected one loop over MinimiserGenerator items, found %d" % len(loops), fv.fn["sp"])
        return
    loop = loops[0]
    item = ("item", fv.term(loop["iter"]))
    # R: run text
    fmts = formats_in(fv, loop["body"])
    okR = len(fmts) == 1 and fmt_template(fmts[0][1]) == "{}:{}-{}" and fmts[0][1][2] == (
        ("call", N2K, ("proj", 0, item), msize), ("proj", 1, item), ("proj", 2, item))
    if not okR:
        # the run text assembled piecewise into a String (`push_str(&kmer); push_str(&format!(":{}-{}", s, e))`)
        okR = run_pieces_in_loop(fv, loop) in (expected_run_pieces(item, msize), [("lit", "\t")] + expected_run_pieces(item, msize))
    it = fv.term(loop["iter"])
    m_given = set(s[4] for s in subterms(it) if s[0] == "call" and s[1] in MGEN_NEW and len(s) == 5)
    okR = okR and m_given == {msize}
    ctx.check("C10.R", "seq_to_min:run_text", okR, "run text = \"{}:{}-{}\"(numeric_to_kmer(k, msize), s, e)",
              "run text is `%s` with arguments %s (iterator built with m in %s); expected \"{}:{}-{}\" of "
              "(numeric_to_kmer(item.0, msize), item.1, item.2) with the same msize"
              % (fmt_template(fmts[0][1]) if fmts else "?", [show(a) for a in fmts[0][1][2]] if fmts else "?",
                 [show(m) for m in m_given]), line_of(loop))
    # W: one line per taken record
    then = None
    for n in fv.nodes:
        if n.get("k") == "if" and n["cond"].get("k") == "letexpr" and any(x is loop for x in walk(n["then"])):
            then = n["then"]
    if then is None:
        ctx.fail("C10.W", "seq_to_min:some_branch", "`if let Some(record)` around the run loop not found", line_of(loop))
        return
    mins = [b for lid, b in fv.binds.items() if b["mut"] and "Vec<std::string::String>" in b["ty"]]
    mins_ids = [lid for lid, b in fv.binds.items() if b["mut"] and "Vec<std::string::String>" in b["ty"]]
    if len(mins_ids) != 1:
        if string_line_rules(ctx, fv, then, loop, fmts):
            return
        ctx.fail("C10.W", "seq_to_min:line_vec", "line container (a Vec<String> joined by TAB, or one String buffer) not found", line_of(then))
        return
    mv = ("local", fv.binds[mins_ids[0]]["name"], mins_ids[0])
    def want(n):
        if n.get("k") == "mcall" and cname(n).endswith("Vec::push") and fv.term(n["recv"]) == mv:
            return True
        if n.get("k") == "mcall" and cname(n).endswith("Write::write_all"):
            return True
        return n is loop
    paths = enum_paths(then, want)
    bad = None
    # elements the vector is created with (`vec![record.id]`) count as leading pushes
    init_b = fv.binds[mins_ids[0]]["val"]
    init_t = fv.term(init_b[1]) if init_b[0] == "node" else ("none",)
    prefix = [x for a in subterms(init_t) if a[0] == "array" for x in a[1:]]

    def strlit(t):
        while t[0] == "call" and t[1].split("::")[-1] in ("to_string", "to_owned", "from", "into") and len(t) == 3:
            t = t[2]
        return t

    def is_rec_id(t):
        return t[0] == "field" and t[2] == "id" and contains(t, lambda s_: s_[0] == "call" and s_[1].endswith("Iterator::next"))
    for ev, ex in paths:
        seq = [("elem", t, None) for t in prefix]
        inloop = 0
        for e in ev:
            if e[0] == "enter" and e[1] is loop:
                inloop += 1
            elif e[0] == "leave" and e[1] is loop:
                inloop -= 1
            elif e[0] == "ev" and e[1] is not loop:
                n = e[1]
                if cname(n).endswith("write_all"):
                    seq.append(("write", None, n))
                else:
                    seq.append(("run" if inloop else "elem", fv.term(n["args"][0]), n))
        kinds = [k for k, _, _ in seq]
        outer = [k for k in kinds if k != "run"]
        last_node = next((n for _, _, n in reversed(seq) if n is not None), then)
        if outer != ["elem", "elem", "write"] or ex[0] not in ("fall", "continue"):
            bad = ("a path from a taken record builds/writes %s (exit %s); expected the record id, the run texts, a "
                   "newline element and exactly one write_all" % (kinds, ex[0]), last_node)
            break
        elems = [s_ for s_ in seq if s_[0] == "elem"]
        first, last = elems[0], elems[1]
        if seq.index(first) != 0 or seq.index(last) != len(seq) - 2:
            bad = ("elements are not ordered id, runs, newline", last_node)
            break
        if not is_rec_id(first[1]):
            bad = ("the line does not start with the taken record's id (first element is `%s`)" % show(first[1]), first[2] or then)
            break
        if strlit(last[1]) != L("\n"):
            bad = ("the line is not terminated by a newline element", last[2] or then)
            break
        w = seq[-1][2]
        rty = w["recv"].get("ty", "")
        data = fv.term(w["args"][0])
        if not rty.startswith("std::sync::MutexGuard<"):
            bad = ("the line is written through `%s`, not through the writer's MutexGuard" % rty[:60], w)
            break
        if not (data[0] == "call" and data[1].endswith("::join") and data[2] == mv and data[3] == L("\t")):
            bad = ("written data is `%s`, expected mins.join(\"\\t\")" % show(data), w)
            break
    ctx.check("C10.W", "seq_to_min:one_line_per_record", bad is None and len(paths) >= 1,
              "every path from a taken record writes id, runs, newline in one write_all under the writer lock (%d paths)" % len(paths),
              bad[0] if bad else "no path", line_of(bad[1]) if bad else None)
    # loop pushes exactly the run text
    lp = [n for n in walk(loop["body"]) if n.get("k") == "mcall" and cname(n).endswith("Vec::push") and fv.term(n["recv"]) == mv]
    okp = len(lp) == 1 and fmts and fv.term(lp[0]["args"][0]) == fmts[0][1] and not [
        x for x in walk(loop["body"]) if x.get("k") in ("if", "match", "break", "continue", "ret")]
    ctx.check("C10.W", "seq_to_min:one_text_per_run", bool(okp), "one element per iterator item",
              "the run loop does not push exactly one run text per item", line_of(loop))


def m2s_rules(ctx, fv):
    msize = ("param", param_index(fv, "msize"))
    loops = mgen_term(fv)
    if len(loops) != 1:
        ctx.fail("C10.I", "bin_sequences:run_loop", "expected one loop over MinimiserGenerator items", fv.fn["sp"])
        return
    loop = loops[0]
    item = ("item", fv.term(loop["iter"]))
    ent = [n for n in walk(loop["body"]) if n.get("k") == "mcall" and cname(n).startswith("scc::") and cname(n).endswith("::entry")]
    if len(ent) != 1:
        ctx.fail("C10.I", "bin_sequences:entry", "expected one entry() per run", line_of(loop))
        return
    e = ent[0]
    key = fv.term(e["args"][0])
    ctx.check("C10.I", "bin_sequences:key", key == ("call", N2K, ("proj", 0, item), msize),
              "key = numeric_to_kmer(k, msize)", "inversion key is `%s`, expected numeric_to_kmer(item.0, msize)" % show(key), line_of(e))
    am = fv.parent.get(id(e))
    oi = fv.parent.get(id(am)) if am is not None else None
    ok = am is not None and oi is not None and cname(am).endswith("and_modify") and cname(oi).endswith("or_insert")
    t1 = t2 = None
    if ok:
        pushes = [x for x in walk(am["args"][0]) if x.get("k") == "mcall" and cname(x).endswith("Vec::push")]
        if len(pushes) == 1 and fv.term(pushes[0]["recv"]) == ("cparam", 0):
            t1 = fv.term(pushes[0]["args"][0])
        ins = fv.term(oi["args"][0])
        # vec![x] => into_vec(box [x]) / from array
        arrs = [s for s in subterms(ins) if s[0] == "array" and len(s) == 2]
        if arrs:
            t2 = arrs[0][1]
    if not ok and am is not None and cname(am).endswith("or_default"):
        # `map.entry(k).or_default().get_mut().push(x)`: one push serves the new and the existing entry alike
        chain = am
        for _ in range(3):
            nxt = fv.parent.get(id(chain))
            if nxt is None or nxt.get("k") not in ("mcall", "addr", "un"):
                break
            chain = nxt
            if chain.get("k") == "mcall" and cname(chain).endswith("Vec::push"):
                t1 = t2 = fv.term(chain["args"][0])
                ok = True
                break
    want = None
    if t1 is not None and t1[0] == "tup" and len(t1) == 4:
        want = t1[1][0] == "field" and t1[1][2] == "id" and t1[2] == ("proj", 1, item) and t1[3] == ("proj", 2, item)
    ctx.check("C10.I", "bin_sequences:tuples_equal", ok and t1 is not None and t1 == t2 and bool(want),
              "and_modify pushes and or_insert seeds the same (record.id, s, e)",
              "the two arms of the inversion insert different tuples (and_modify: %s, or_insert: %s); expected "
              "(record.id, item.1, item.2) in both" % (show(t1) if t1 else "?", show(t2) if t2 else "?"), line_of(e))
    # output after the scope: one line per entry "{k}\t{v:?}\n"
    scans = [n for n in fv.nodes if n.get("k") == "mcall" and cname(n).startswith("scc::") and cname(n).endswith("::scan")]
    sview = fv
    if not scans:
        # the output stage may be a helper called after the scope has joined
        for c, hv in helper_views(ctx, fv):
            hs = [n for n in hv.nodes if n.get("k") == "mcall" and cname(n).startswith("scc::") and cname(n).endswith("::scan")]
            if hs and fv.in_closure_passed_to(c, is_spawn) is None:
                scans, sview = hs, hv
    oks = len(scans) == 1 and sview.in_closure_passed_to(scans[0], is_spawn) is None
    if oks:
        fm = formats_in(sview, scans[0])
        oks = len(fm) == 1 and fmt_template(fm[0][1]) == "{}\t{:?}\n" and fm[0][1][2] == (("cparam", 0), ("cparam", 1))
    ctx.check("C10.I", "bin_sequences:one_line_per_entry", bool(oks), "after the scope: one `key TAB list` line per map entry",
              "the inverted map is not written as one \"{k}\\t{v:?}\\n\" line per entry after the workers joined",
              line_of(scans[0]) if scans else fv.fn["sp"])
    # every item handled, no conditional skipping
    branchy = [x for x in walk(loop["body"]) if x.get("k") in ("if", "match", "break", "continue", "ret")]
    ctx.check("C10.I", "bin_sequences:every_run", not branchy, "every run is inserted", "a run can be skipped",
              line_of(branchy[0]) if branchy else None)


def _abstract_record(t):
    """the record taken from the shared reader, however the reader is reached (Arc<Mutex>, borrowed Mutex, ...)"""
    if not isinstance(t, tuple):
        return t
    if t and t[0] == "variant" and t[1] == "Some" and t[3][0] == "call" and t[3][1].endswith("Iterator::next"):
        return ("taken_record",)
    return tuple(_abstract_record(x) for x in t)


def agree_rule(ctx, fs, fm):
    a = mgen_term(fs)
    b = mgen_term(fm)
    if len(a) == 1 and len(b) == 1:
        ta = alpha(lift_if(_abstract_record(fs.term(a[0]["iter"]))))
        tb = alpha(lift_if(_abstract_record(fm.term(b[0]["iter"]))))
        ctx.check("C10.G", "s2m_vs_m2s:iterator", ta == tb, "both outputs build the iterator as %s" % show(fs.term(a[0]["iter"])),
                  "seq_to_min builds `%s` but bin_sequences builds `%s`: the two outputs would not describe the same runs"
                  % (show(fs.term(a[0]["iter"])), show(fm.term(b[0]["iter"]))), line_of(b[0]))
    for fv, who in ((fs, "seq_to_min"), (fm, "bin_sequences")):
        it = lift_if(fv.term(mgen_term(fv)[0]["iter"])) if mgen_term(fv) else ("none",)
        w, m = ("param", param_index(fv, "wsize")), ("param", param_index(fv, "msize"))
        seqs = set()
        ok = it[0] == "if" and it[1] == mk_bin("==", w, L(0))
        if ok:
            z, nz = it[2], it[3]
            ok = z[0] == "call" and z[1] in MGEN_NEW and nz[0] == "call" and nz[1] == z[1] and nz[3] == w and nz[4] == m \
                and z[4] == m and z[2] == nz[2] and contains(z[3], lambda s: is_len_of(s, z[2]))
        ctx.check("C10.G", "%s:w0" % who, ok, "w == 0 -> one window spanning the record, else (seq, w, m)",
                  "iterator construction `%s` is not `if wsize == 0 {new(seq, <len of seq>, msize)} else {new(seq, wsize, msize)}` "
                  "(argument order/roles)" % show(it), fv.fn["sp"])
        # threads == 0 => current_num_threads()
        asg = [n for n in fv.nodes if n.get("k") == "assign" and n["l"].get("k") == "local" and n["l"]["name"] == "threads"]
        okt = len(asg) == 1 and fv.term(asg[0]["r"]) == ("call", "rayon::current_num_threads") and \
            any(t[0] == "bin" and t[1] == "==" and L(0) in (t[2], t[3]) and p for t, p in [(fv.term(c), p) for c, p in fv.guards(asg[0])])
        if not okt:
            # expression form: the pool size is `if threads == 0 { current_num_threads() } else { threads }`
            tp = ("param", param_index(fv, "threads"))
            want_t = ("if", mk_bin("==", tp, L(0)), ("call", "rayon::current_num_threads"), tp)
            nts = [n for n in fv.nodes if n.get("k") == "mcall" and cname(n).endswith("ThreadPoolBuilder::num_threads")]
            okt = len(nts) == 1 and fv.term(nts[0]["args"][0]) == want_t
        ctx.check("C10.G", "%s:threads0" % who, okt, "threads == 0 -> rayon::current_num_threads()",
                  "threads == 0 is not mapped to the pool default in %s" % who, fv.fn["sp"])


def window_rule(ctx, rule):
    """U: a window argument derived from a runtime length must be >= m (new() computes w - m + 1 in usize)"""
    n = 0
    for fv in ctx.all_views(lambda f: not f["npath"].startswith("kmer::") and not f["npath"].startswith("<kmer::")):
        k_in_fn = 0
        for c in fv.nodes:
            if c.get("k") == "call" and cname(c) in MGEN_NEW:
                w, m = fv.term(c["args"][1]), fv.term(c["args"][2])
                if not contains(w, lambda s: s[0] == "call" and s[1].endswith("::len")):
                    continue
                n += 1
                k_in_fn += 1
                leaves = [x for x in if_leaves(w) if contains(x, lambda s: s[0] == "call" and s[1].endswith("::len"))]
                okc = bool(leaves) and all(x[0] == "bin" and x[1] == "max" and m in (x[2], x[3]) for x in leaves)
                if not okc:
                    for t, p in [(fv.term(g), p) for g, p in fv.guards(c)]:
                        if p and t[0] == "bin" and t[1] in ("<=", "<") and t[2] == m and contains(t[3], lambda s: s[0] == "call" and s[1].endswith("::len")):
                            okc = True
                site = "%s:window@%d" % (fv.path, k_in_fn)
                ctx.check(rule, site, okc, "runtime-sized window `%s` is clamped to >= m" % show(w),
                          "the window argument `%s` is a runtime length that can be smaller than m (`%s`): "
                          "MinimiserGenerator::new evaluates wsize - msize + 1 in usize, which underflows (panic / "
                          "absurd capacity) for a record shorter than m when w = 0" % (show(w), show(m)), line_of(c))
    if n < 2:
        ctx.fail(rule, "window:floor", "expected 2 runtime-sized window arguments (s2m and m2s, w == 0), found %d" % n)



def string_line_rules(ctx, fv, then, loop, fmts):
    """the line is assembled in ONE String: id, then per run TAB + text, then TAB + newline; written once per record
    under the writer lock.  Byte-identical to [id, runs.., "\\n"].join("\\t")."""
    ws = [n for n in walk(then) if n.get("k") == "mcall" and cname(n).endswith("Write::write_all")]
    if len(ws) != 1:
        return False
    w = ws[0]
    data = fv.term(w["args"][0])
    if data[0] != "local":
        return False
    lid = data[2]
    b = fv.binds.get(lid)
    if b is None or "string::String" not in b.get("ty", ""):
        return False
    init = fv.term(b["val"][1]) if b["val"][0] == "node" else ("none",)
    apps_out, apps_in = [], []
    for n in walk(then):
        if n.get("k") == "mcall" and n["recv"].get("k") == "local" and n["recv"].get("id") == lid \
                and cname(n).split("::")[-1] in ("push", "push_str"):
            a = fv.term(n["args"][0])
            (apps_in if any(x is loop for x in fv.ancestors(n)) else apps_out).append((n, a))

    def lit(t):
        while t[0] == "call" and len(t) == 3 and t[1].split("::")[-1] in ("to_string", "to_owned", "from", "into"):
            t = t[2]
        return t[1] if t[0] == "lit" and isinstance(t[1], str) else None
    def is_id(t_):
        while t_[0] == "call" and len(t_) == 3 and t_[1].split("::")[-1] in ("as_str", "deref", "as_ref", "clone", "to_owned", "to_string", "borrow"):
            t_ = t_[2]
        return t_[0] == "field" and t_[2] == "id" and contains(t_, lambda s_: s_[0] == "call" and s_[1].endswith("Iterator::next"))
    ok_id = is_id(init)
    if not ok_id and init[0] == "call" and init[1].split("::")[-1] in ("new", "with_capacity") and "String" in init[1]:
        # a per-worker buffer reused for every record: `line.clear(); line.push_str(&record.id); ..`
        clears = [n for n in walk(then) if n.get("k") == "mcall" and n["recv"].get("k") == "local" and n["recv"].get("id") == lid
                  and cname(n).split("::")[-1] == "clear"]
        order_ = {id(x): i for i, x in enumerate(walk(then))}
        if len(clears) == 1 and apps_out and is_id(apps_out[0][1]) and order_[id(clears[0])] < order_[id(apps_out[0][0])] \
                and not fv.guards_within(clears[0], then):
            ok_id = True
            apps_out = apps_out[1:]
    ok_tail = len(apps_out) == 1 and lit(apps_out[0][1]) == "\t\n"
    ok_run = len(apps_in) == 2 and lit(apps_in[0][1]) == "\t" and fmts and apps_in[1][1] == fmts[0][1]
    if not ok_run:
        it_ = ("item", fv.term(loop["iter"]))
        ms_ = set(s_[4] for s_ in subterms(fv.term(loop["iter"])) if s_[0] == "call" and s_[1] in MGEN_NEW and len(s_) == 5)
        ok_run = len(ms_) == 1 and run_pieces_in_loop(fv, loop, lid) == [("lit", "\t")] + expected_run_pieces(it_, next(iter(ms_)))
    branchy = [x for x in walk(loop["body"]) if x.get("k") in ("if", "match", "break", "continue", "ret")]
    rty = w["recv"].get("ty", "")
    # one write on every path, after the final append
    def want(n):
        return n is w or (apps_out and n is apps_out[0][0])
    paths = enum_paths(then, want)
    ok_paths = all([e[1] for e in ev if e[0] == "ev"] == [apps_out[0][0], w] and ex[0] in ("fall", "continue")
                   for ev, ex in paths) if apps_out else False
    ok = ok_id and ok_tail and ok_run and not branchy and rty.startswith("std::sync::MutexGuard<") and ok_paths
    ctx.check("C10.W", "seq_to_min:one_line_per_record", ok,
              "line = id, (TAB + run text) per run, TAB + newline, written once under the writer lock (String buffer form)",
              "the String-buffer line is not `id (TAB run)* TAB newline` written exactly once per taken record under the writer's "
              "MutexGuard (id:%s tail:%s run:%s paths:%s guard:%s)" % (ok_id, ok_tail, ok_run, ok_paths, rty[:40]), line_of(w))
    ctx.check("C10.W", "seq_to_min:one_text_per_run", ok_run and not branchy, "one run text per iterator item",
              "the run loop does not append exactly TAB + run text per item", line_of(loop))
    return True



def expected_run_pieces(item, msize):
    return [("term", ("call", N2K, ("proj", 0, item), msize)), ("lit", ":"), ("term", ("proj", 1, item)), ("lit", "-"),
            ("term", ("proj", 2, item))]


def run_pieces_in_loop(fv, loop, lid=None):
    """the string pieces appended to one String local per iteration of the run loop, in order"""
    from ..core import string_pieces, _merge_lits
    apps = []
    for n in walk(loop["body"]):
        if n.get("k") == "mcall" and n["recv"].get("k") == "local" and cname(n).split("::")[-1] in ("push", "push_str") \
                and (n["recv"].get("ty") or "").lstrip("&").replace("mut ", "").endswith("string::String"):
            if lid is not None and n["recv"].get("id") != lid:
                continue
            apps.append(n)
    if not apps or len(set(a["recv"]["id"] for a in apps)) != 1:
        return None
    ps = []
    for n in apps:
        a = fv.term(n["args"][0])
        if cname(n).endswith("::push"):
            ps.append(("lit", a[1]) if a[0] == "lit" and isinstance(a[1], str) else ("term", a))
        else:
            ps.extend(string_pieces(fv, a))
    return _merge_lits(ps)
