"""C09 — minimiser iterator emits exactly the maximal runs of same-minimiser windows."""
from .common import *
from . import minimiser

EXPLANATION = (
    "Structural clauses of the minimiser state machine, decided on the symbolically composed paths of "
    "one loop iteration of MinimiserGenerator::next (term composition over structured control flow, no "
    "execution): (T/G/U) byte table, m-register geometry and rolling-update slots; (S) sentinel "
    "typestate — every emission of m_active lies on a path whose condition establishes an open run; (R) "
    "run closure — end of input returns None only when no run is open, a flush emits and resets; (B) one "
    "buffer-full term w-m+1 at all tests and the capacity; (E) reset completeness at an ambiguous byte; "
    "(M) the two break-guard operators (strict < on arrival, != after rescan); (W) run coordinates; (P) "
    "exhaustion test first, pos+1 per consumed byte. Does not decide that the selected value is the "
    "window minimum nor maximality as behaviour.")
ASSUMPTIONS = ["m-mer values are < 4^m <= 2^62, so u64::MAX is never a real minimiser"]


def run(ctx):
    g = minimiser.GENS["plain"]
    rule_nt4_table(ctx, "C09.T", g["table"])
    fnew = ctx.need("C09.G", g["new"])
    fv = ctx.need("C09.U", g["next"])
    if fnew is not None:
        rule_geometry(ctx, "C09.G", fnew, g["adt"], "m_mask", "m_shift", "msize",
                      ["m_val_f", "m_val_r", "m_val_l", "pos", "buff_pos", "m_window_start"])
    if fv is not None:
        rule_register_updates(ctx, "C09.U", fv, g["name"], g["table"], g["rev"], "m_val_f", "m_val_r", "m_val_l",
                              "m_mask", "m_shift")
        length_rule(ctx, "C09.U", fv, g["name"], "m_val_l", "msize")
    minimiser.run(ctx, "C09", "plain")
    from . import c13
    c13.minimiser_binding_rules(dep(ctx, "C09", "C13"))


def length_rule(ctx, rule, fv, name, lf, sizef):
    """m-length: +1 per clean byte; `< size` => continue; then -1 (saturation at size)"""
    ws = self_field_writes(fv, lf)
    vals = sorted(show(t) for _, t in ws)
    inc = [1 for _, t in ws if t == mk_bin("+", SF(lf), L(1))]
    dec = [n for n, t in ws if t == mk_bin("-", SF(lf), L(1))]
    zero = [1 for _, t in ws if t == L(0)]
    ctx.check(rule, "%s:%s:writes" % (name, lf), len(inc) == 1 and len(dec) == 1 and len(zero) == 1 and len(ws) == 3,
              "%s: +1 (clean), -1 (saturation), =0 (reset)" % lf,
              "length register `%s` is written as %s; expected exactly one += 1, one -= 1 and one reset to 0" % (lf, vals),
              fv.fn["sp"])
    if dec:
        gs = [(fv.term(c), p) for c, p in fv.guards(dec[0])]
        want = (mk_bin("<", SF(lf), SF(sizef)), False)
        ctx.check(rule, "%s:%s:saturate" % (name, lf), want in gs, "-= 1 happens once %s >= %s" % (lf, sizef),
                  "the saturating `%s -= 1` is not dominated by the test `%s < %s` (guards %s)"
                  % (lf, lf, sizef, [("" if p else "!") + show(t) for t, p in gs]), line_of(dec[0]))
