"""C13 — Python bindings compute exactly what the Rust core computes."""
import os
import re

from .common import *
from . import c03, c11, c01
from ..facts import repo_root

EXPLANATION = (
    "'Same computation' decided as same code shape: (A) the binding's oligo loop, header builder and CGR "
    "loop are members of the core families (identical slots as C04/C03/C11); (D) __next__ of both "
    "iterators is the core Iterator::next (resolved impl) on the owned generator returned unchanged, "
    "constructors forward (bytes, k) / (bytes, w, m) in the callee's parameter order, to_acgt = "
    "numeric_to_kmer(x, stored size) with the stored size the constructor argument; (O) ownership "
    "behind the lifetime extension: exactly two transmutes in the workspace, both in these "
    "constructors, source = Arc::as_ref(&_data), _data and the generator moved into the same returned "
    "struct, _data never written elsewhere, structs not Clone, core generators have no Drop impl; (V) "
    "CGR miss edge = Err(PyValueError), PyResult return, no unwrap/expect/panic in the CGR binding; "
    "(B) batch = ordered into_par_iter().map(single-sequence method).collect(); (R) both module "
    "flavours register exactly the #[pyclass] types; (P) no profile sets panic=abort; (N) bytes "
    "128..=255 classify as ambiguous. Interpreter-level behaviour is not analysed.")
ASSUMPTIONS = ["pyo3 converts Err(PyValueError) to a Python ValueError and a Rust panic to PanicException unless panic=abort",
               "Arc<[u8]> keeps the bytes at a stable address while any co-owner lives"]

PYK = {"new": "pybindings::kmer::KmerGenerator::new", "next": "pybindings::kmer::KmerGenerator::__next__",
       "acgt": "pybindings::kmer::KmerGenerator::to_acgt", "adt": "pybindings::kmer::KmerGenerator",
       "gen": "_kg", "size": "ksize", "core_new": "kmer::kmer::KmerGenerator::new",
       "core_next": "<kmer::kmer::KmerGenerator as std::iter::Iterator>::next", "params": ["seq", "ksize"],
       "core_adt": "kmer::kmer::KmerGenerator"}
PYM = {"new": "pybindings::min::MinimiserGenerator::new", "next": "pybindings::min::MinimiserGenerator::__next__",
       "acgt": "pybindings::min::MinimiserGenerator::to_acgt", "adt": "pybindings::min::MinimiserGenerator",
       "gen": "_mg", "size": "msize", "core_new": "kmer::minimiser::MinimiserGenerator::new",
       "core_next": "<kmer::minimiser::MinimiserGenerator as std::iter::Iterator>::next",
       "params": ["seq", "wsize", "msize"], "core_adt": "kmer::minimiser::MinimiserGenerator"}
PYCLASSES = {"pybindings::oligo::OligoComputer", "pybindings::cgr::CgrComputer", "pybindings::kmer::KmerGenerator",
             "pybindings::min::MinimiserGenerator"}


def run(ctx):
    # A: families
    fv = ctx.need("C13.A", "pybindings::oligo::OligoComputer::vectorise_one")
    if fv is not None:
        acc_family(ctx, "C13.A", fv, "pybindings::oligo::vectorise_one", ("param", param_index(fv, "seq")),
                   ("param", param_index(fv, "norm")))
    c03.rule_posmap_ctor(ctx, "C13.A", "pybindings::oligo::OligoComputer::new", "pybindings::oligo::OligoComputer",
                         {"pos_map": "pos_map", "pos_kmer": "pos_kmer", "kcount": "kcount", "ksize": "ksize"})
    fh = ctx.need("C13.A", "pybindings::oligo::OligoComputer::get_header")
    if fh is not None:
        c03.header_builder(ctx, "C13.A", fh, "pybindings::oligo::get_header", SF("pos_kmer"), SF("kcount"), SF("ksize"))
    c11.midpoint_rule(ctx, "C13.A", "C13.V", "pybindings::cgr::CgrComputer::vectorise_one", "whole")
    c11.ctor_rule(ctx, "C13.A", "pybindings::cgr::CgrComputer::new", "pybindings::cgr::CgrComputer")
    # core side of the same families must hold as well (agreement = both equal the reference)
    fc = ctx.need("C13.A", "composition::oligo::OligoComputer::vectorise_one")
    if fc is not None:
        acc_family(ctx, "C13.A", fc, "composition::oligo::vectorise_one", ("param", param_index(fc, "seq")), SF("norm"))
    c11.midpoint_rule(ctx, "C13.A", "C13.V", "composition::cgr::CgrComputer::vectorise_one", "whole")
    for g in (PYK, PYM):
        delegation_rule(ctx, g)
        ownership_rule(ctx, g)
    transmute_census(ctx)
    value_error_rule(ctx)
    py_signature_rule(ctx)
    ctor_unguarded_rule(ctx)
    mp_ = c11.ctor_rule(dep(ctx, "C13", "C11"), "C11.C", "pybindings::cgr::CgrComputer::new", "pybindings::cgr::CgrComputer")
    if mp_ is not None:
        c11.table_rule(dep(ctx, "C13", "C11"), "C11.T", mp_)      # the ValueError edge is a miss in this table: its key set is the alphabet
    batch_rule(ctx)
    registration_rule(ctx)
    profile_rule(ctx)
    from . import c09
    c01.run(dep(ctx, "C13", "C01"))
    c09.run(dep(ctx, "C13", "C09"))
    tab = (ctx.prog.consts.get(c01.TABLE) or {}).get("bytes")
    if tab is not None:
        bad = [b for b in range(128, 256) if tab[b] != 4]
        ctx.check("C13.N", "table:non_ascii", not bad, "bytes 128..=255 classify as ambiguous (128 entries)",
                  "bytes %s of the class table are not 4: UTF-8 continuation bytes would be read as bases" % bad[:5],
                  ctx.prog.consts[c01.TABLE]["sp"])


def _is_alias_let(st):
    """`let this: &mut Self = &mut slf;` -- an immutable binding of a (re)borrow: no effect of its own"""
    if st.get("k") != "let" or st.get("pat", {}).get("k") != "pbind" or "Mut)" in st["pat"].get("mode", "") or st.get("els"):
        return False
    for x in walk(st.get("init") or {}):
        if x.get("k") in ("call", "mcall") and cname(x).split("::")[-1] not in ("deref", "deref_mut", "borrow", "borrow_mut", "as_mut", "as_ref"):
            return False
        if x.get("k") in ("if", "match", "loop", "for", "while", "closure", "ret", "assign", "assignop"):
            return False
    return True


def delegation_rule(ctx, g):
    short = g["adt"].split("::")[-1]
    fn = ctx.need("C13.D", g["next"])
    if fn is not None:
        body = fn.body.get("expr")
        ok = body is not None and body.get("k") == "mcall" and rname(body) == g["core_next"] \
            and fn.term(body["recv"])[0] == "field" and fn.term(body["recv"])[2] == g["gen"] \
            and all(_is_alias_let(st) for st in fn.body.get("stmts", []))
        ctx.check("C13.D", "%s:__next__" % short, ok, "__next__ = core next() on the owned generator, returned unchanged",
                  "__next__ is `%s`; expected a bare `slf.%s.next()` resolving to %s"
                  % (show(fn.term(body)) if body else "?", g["gen"], g["core_next"]), fn.fn["sp"])
    fi = ctx.need("C13.D", g["next"].replace("__next__", "__iter__"))
    if fi is not None:
        body = fi.body.get("expr")
        t = fi.term(body) if body is not None else ("none",)
        ok = not fi.body.get("stmts") and t[0] == "param" and not any(
            x.get("k") in ("assign", "assignop", "call", "mcall") for x in fi.nodes if not x.get("mac"))
        ctx.check("C13.D", "%s:__iter__" % short, ok, "__iter__ returns the object itself, untouched",
                  "__iter__ is not the identity (`%s`, %d statement(s)): iterating a partly consumed generator would not "
                  "continue where it stands" % (show(t), len(fi.body.get("stmts", []))), fi.fn["sp"])
    # the generator field is written nowhere but in the constructor's struct literal
    gw = []
    for fv in ctx.all_views(lambda f: f["npath"].startswith("pybindings::")):
        for n in fv.nodes:
            if n.get("k") in ("assign", "assignop") and n["l"].get("k") == "field" and n["l"]["name"] == g["gen"] \
                    and n["l"].get("adt") == g["adt"]:
                gw.append(n)
    ctx.check("C13.D", "%s:generator_never_replaced" % short, not gw, "`%s` is assigned only by the constructor" % g["gen"],
              "the core generator held by %s is replaced after construction: the stream restarts or changes under the "
              "caller" % short, line_of(gw[0]) if gw else None)
    fnew = ctx.need("C13.D", g["new"])
    if fnew is not None:
        calls = fnew.calls_to(g["core_new"])
        core = ctx.view(g["core_new"])
        ok = len(calls) == 1 and core is not None
        detail = ""
        if ok:
            args = calls[0]["args"]
            core_params = [p.get("name") for p in core.fn["params"]]
            # sizes: binding parameter i must go to the core parameter of the same name
            for i, a in enumerate(args[1:], start=1):
                t = fnew.term(a)
                want = g["params"][i]
                if not (is_param(fnew, t, want) and core_params[i] == want):
                    ok = False
                    detail = "argument %d of the core constructor (`%s`) receives `%s`, expected the binding's `%s`" % (
                        i, core_params[i], show(t), want)
            if len(args) != len(g["params"]):
                ok = False
        ctx.check("C13.D", "%s:new_forwards" % short, ok, "constructor forwards %s in the callee's parameter order" % g["params"],
                  detail or "core constructor call not found / arity differs", line_of(calls[0]) if calls else fnew.fn["sp"])
        lit = struct_literal(fnew, g["adt"])
        if lit is not None:
            fs = struct_fields(fnew, lit)
            ctx.check("C13.D", "%s:size_stored" % short, is_param(fnew, fs.get(g["size"], ("none",)), g["size"]),
                      "stored %s is the constructor argument" % g["size"],
                      "stored `%s` = %s" % (g["size"], show(fs.get(g["size"], ("none",)))), line_of(lit))
    fa = ctx.need("C13.D", g["acgt"])
    if fa is not None:
        t = fa.term(fa.body.get("expr")) if fa.body.get("expr") else ("none",)
        ok = t == ("call", "kmer::numeric_to_kmer", ("param", 1), SF(g["size"]))
        ctx.check("C13.D", "%s:to_acgt" % short, ok, "to_acgt = numeric_to_kmer(x, self.%s)" % g["size"],
                  "to_acgt is `%s`" % show(t), fa.fn["sp"])


def _strip_ref(x):
    while isinstance(x, dict) and (x.get("k") == "addr" or (x.get("k") == "un" and x.get("op") == "*")
                                   or (x.get("k") == "block" and not x.get("stmts") and x.get("expr") is not None)):
        x = x["e"] if x.get("k") != "block" else x["expr"]
    return x


def extension_sites(fv):
    """places where a borrow of an owned buffer is given an unbounded lifetime; [(node, borrowed-from expression, idiom)]:
    transmute(Arc::as_ref(&a)),  &*Arc::as_ptr(&a),  slice::from_raw_parts(a.as_ptr(), a.len())"""
    out = []
    for n in fv.nodes:
        if n.get("mac"):
            continue
        k = n.get("k")
        c = cname(n) if k in ("call", "mcall") else ""
        if k == "call" and c.endswith("::transmute"):
            arg = _strip_ref(n["args"][0])
            if arg.get("k") == "local":           # `let borrowed: &[u8] = Arc::as_ref(&_data); transmute(borrowed)`
                o_ = fv.origin(arg)
                arg = _strip_ref(o_) if o_ is not None else arg
            src = None
            if arg.get("k") in ("call", "mcall") and "Arc" in rname(arg) and rname(arg).endswith("as_ref"):
                src = _strip_ref(call_args(arg)[0])
            out.append((n, src, "transmute"))
        elif k == "call" and c.split("::")[-1] in ("from_raw_parts", "from_raw_parts_mut") and "slice" in c:
            a0, a1 = _strip_ref(n["args"][0]), _strip_ref(n["args"][1])
            src = None
            if a0.get("k") in ("call", "mcall") and cname(a0).split("::")[-1] == "as_ptr" \
                    and a1.get("k") in ("call", "mcall") and cname(a1).split("::")[-1] == "len":
                s0, s1 = _strip_ref(call_args(a0)[0]), _strip_ref(call_args(a1)[0])
                if s0.get("k") == "local" and s1.get("k") == "local" and s0.get("id") == s1.get("id"):
                    src = s0
            out.append((n, src, "from_raw_parts"))
        elif k == "addr" and isinstance(n.get("e"), dict) and n["e"].get("k") == "un" and n["e"].get("op") == "*":
            inner = n["e"]["e"]
            if isinstance(inner, dict) and inner.get("k") in ("call", "mcall") and cname(inner).split("::")[-1] == "as_ptr" \
                    and "Arc" in (cname(inner) + rname(inner)):
                out.append((n, _strip_ref(call_args(inner)[0]), "raw_deref"))
    return out


def ownership_rule(ctx, g):
    short = g["adt"].split("::")[-1]
    fnew = ctx.need("C13.O", g["new"])
    if fnew is None:
        return
    sites = extension_sites(fnew)
    if len(sites) != 1:
        ctx.fail("C13.O", "%s:transmute" % short, "expected exactly one lifetime extension (transmute / from_raw_parts / raw "
                 "deref of Arc::as_ptr) in the constructor, found %d" % len(sites), fnew.fn["sp"])
        return
    tm = [sites[0][0]]
    inner = sites[0][1]
    src_local = None
    ok = inner is not None
    if ok:
        if inner.get("k") == "local":
            o_ = fnew.origin(inner)
            inner = o_ if o_.get("k") == "local" else inner
        ok = inner.get("k") == "local" and inner.get("ty", "").lstrip("&").startswith("std::sync::Arc<[u8]")
        src_local = inner if ok else None
    if sites[0][2] == "transmute":
        gargs = tm[0].get("gargs", [])
        ok_ty = gargs == ["&[u8]", "&[u8]"] or (len(gargs) == 2 and gargs[0].endswith("[u8]") and gargs[1].endswith("[u8]"))
    else:
        gargs = [tm[0].get("ty")]
        ok_ty = (tm[0].get("ty") or "").endswith("[u8]")
    ctx.check("C13.O", "%s:transmute_source" % short, bool(ok) and ok_ty,
              "lifetime extension of the bytes of the Arc<[u8]> local (&[u8] -> &'static [u8])",
              "the lifetime extension (%s) does not borrow exactly the bytes of an `Arc<[u8]>` local as &[u8] "
              "(types %s)" % (sites[0][2], gargs), line_of(tm[0]))
    if src_local is not None:
        b = fnew.binds.get(src_local["id"])
        dt = fnew.term(b["val"][1]) if b and b["val"][0] == "node" else ("none",)
        sp_ = ("param", param_index(fnew, "seq"))
        okb = contains(dt, lambda s_: s_ == sp_) and all(
            s_[0] != "call" or s_[1].split("::")[-1] in ("into_boxed_str", "into_boxed_bytes", "into_bytes", "as_bytes", "to_vec",
                                                         "into_boxed_slice", "to_owned", "clone", "into", "from", "new")
            for s_ in subterms(dt)) and not contains(dt, lambda s_: s_[0] in ("closure", "cast"))
        ctx.check("C13.O", "%s:bytes_are_utf8" % short, okb, "the iterator reads exactly the UTF-8 bytes of the Python string",
                  "the backing buffer is built as `%s`, not as the string's UTF-8 bytes: non-ASCII characters would be read as "
                  "other bytes (e.g. truncated code points that look like bases)" % show(dt), line_of(src_local))
    lit = struct_literal(fnew, g["adt"])
    if lit is None or src_local is None:
        return
    fnodes = {f["name"]: f["e"] for f in lit["fields"]}
    d = fnodes.get("_data")
    if d is not None and d.get("k") == "local":
        # `_data` may be the Arc itself or a local it was moved into (tuple destructuring of a helper's result)
        chain = []
        x = d
        for _ in range(10):
            chain.append(x.get("id"))
            b_ = fnew.binds.get(x["id"])
            if b_ is None or b_["mut"]:
                break
            v_ = b_["val"]
            projs = []
            while v_[0] == "proj":
                projs.append(v_[1])
                v_ = v_[2]
            if v_[0] != "node" or v_[1] is None:
                break
            y = v_[1]
            bad = False
            for i_ in reversed(projs):
                y = fnew.origin(y) if y.get("k") != "tup" else y
                while y.get("k") == "block" and y.get("expr") is not None:
                    y = y["expr"]
                if y.get("k") == "tup" and i_ < len(y["es"]):
                    y = y["es"][i_]
                else:
                    bad = True
                    break
            while not bad and y.get("k") == "block" and y.get("expr") is not None:
                y = y["expr"]
            if bad or y.get("k") != "local":
                break
            x = y
        okd = src_local["id"] in chain
    else:
        okd = False
    ctx.check("C13.O", "%s:data_moved_in" % short, okd, "the Arc whose bytes were extended is moved into the returned struct",
              "field `_data` is not the Arc the slice was borrowed from: the bytes can be freed while the generator lives",
              line_of(lit))
    gen = fnodes.get(g["gen"])
    okg = False
    if gen is not None:
        c = fnew.origin(gen)
        if c is not None and c.get("k") == "call" and cname(c) == g["core_new"]:
            a0 = fnew.origin(c["args"][0])
            okg = a0 is not None and any(x is tm[0] for x in walk(a0))
    ctx.check("C13.O", "%s:generator_moved_in" % short, okg, "the generator reading the extended slice lives in the same struct",
              "field `%s` is not the generator built from the extended slice" % g["gen"], line_of(lit))
    # _data written nowhere else; struct not Clone; no &mut access
    writes = []
    for fv in ctx.all_views(lambda f: f["npath"].startswith("pybindings::")):
        for n in fv.nodes:
            if n.get("k") in ("assign", "assignop") and n["l"].get("k") == "field" and n["l"]["name"] == "_data" \
                    and n["l"].get("adt") == g["adt"]:
                writes.append(n)
            if n.get("k") == "addr" and n.get("mut") and n["e"].get("k") == "field" and n["e"]["name"] == "_data" \
                    and n["e"].get("adt") == g["adt"]:
                writes.append(n)
            if n.get("k") == "struct" and norm_path(n.get("adt", "")) == g["adt"] and fv.path != g["new"]:
                writes.append(n)
    ctx.check("C13.O", "%s:data_never_replaced" % short, not writes, "`_data` is never reassigned / mutably borrowed; the struct is built only in new()",
              "the backing Arc of %s is written or the struct is built outside new()" % short, line_of(writes[0]) if writes else None)
    clone = [i for i in ctx.prog.impls if i.get("self_adt") and norm_path(i["self_adt"]) == g["adt"]
             and i.get("trait") in ("std::clone::Clone", "std::marker::Copy")]
    ctx.check("C13.O", "%s:not_clone" % short, not clone, "struct is not Clone/Copy",
              "%s implements Clone/Copy: a copy of the generator could outlive the Arc" % short, clone[0]["sp"] if clone else None)
    drops = [i for i in ctx.prog.impls if i.get("self_adt") and norm_path(i["self_adt"]) == g["core_adt"]
             and i.get("trait") == "std::ops::Drop"]
    ctx.check("C13.O", "%s:core_no_drop" % short, not drops, "core generator has no Drop impl (field drop order irrelevant)",
              "the core generator implements Drop and may read the slice after `_data` was released", drops[0]["sp"] if drops else None)
    adt = ctx.prog.adts.get(g["adt"])
    if adt is not None:
        fields = {f["name"]: f for f in adt["variants"][0]["fields"]}
        priv = all(not f["vis"].startswith("Public") for n, f in fields.items() if n in ("_data", g["gen"]))
        ctx.check("C13.O", "%s:fields_private" % short, priv, "`_data` and the generator are private fields",
                  "`_data` or `%s` is public" % g["gen"], adt["sp"])


def transmute_census(ctx):
    sites = []
    for fv in ctx.all_views():
        for n, _src, _kind in extension_sites(fv):
            sites.append(fv.path)
    ctx.check("C13.O", "workspace:transmutes", sorted(sites) == sorted([PYK["new"], PYM["new"]]),
              "exactly two lifetime extensions in the workspace, both in the iterator constructors",
              "lifetime-extension sites (transmute / from_raw_parts / raw deref of Arc::as_ptr) are %s; expected only the "
              "two binding constructors" % sorted(sites), None)


def value_error_rule(ctx):
    fv = ctx.need("C13.V", "pybindings::cgr::CgrComputer::vectorise_one")
    if fv is None:
        return
    rets = [n for n in fv.nodes if n.get("k") == "ret"]
    ok = len(rets) == 1
    if ok:
        t = fv.term(rets[0]["e"])
        ok = t[0] == "call" and t[1].endswith("::Err") and t[2][0] == "call" and \
            t[2][1] in ("pyo3::PyErr::new_err", "pyo3::exceptions::PyValueError::new_err") and \
            any("PyValueError" in ((x.get("callee") or "") + str(x.get("gargs", "")) + str((x.get("f") or {}).get("path", "")))
                for x in walk(rets[0]["e"]) if x.get("k") == "call" and (x.get("callee") or "").endswith("new_err"))
    ctx.check("C13.V", "cgr::vectorise_one:value_error", ok, "bad nucleotide -> Err(PyValueError::new_err(..))",
              "the rejection edge is `%s`, expected Err(PyValueError::new_err(..))" % (show(fv.term(rets[0]["e"])) if rets else "?"),
              line_of(rets[0]) if rets else fv.fn["sp"])
    ctx.check("C13.V", "cgr::vectorise_one:pyresult", "pyo3::PyErr" in fv.fn.get("ret", ""), "returns PyResult",
              "return type is %s" % fv.fn.get("ret"), fv.fn["sp"])
    bad = []
    for v in ctx.all_views(lambda f: f["npath"].startswith("pybindings::cgr::CgrComputer::vectorise")
                           or f["npath"] == "pybindings::cgr::CgrComputer::new"):
        for n in v.nodes:
            if n.get("k") in ("call", "mcall") and not n.get("mac", "").startswith(("pyclass", "pymethods")):
                c = cname(n)
                if c.split("::")[-1] in ("unwrap", "expect", "unwrap_unchecked") or c.startswith("core::panicking") \
                        or c.startswith("std::rt::begin_panic") or c.startswith("std::process::"):
                    bad.append(n)
    ctx.check("C13.V", "cgr:no_panic_paths", not bad, "no unwrap/expect/panic!/exit in the CGR binding",
              "the CGR binding can panic or exit: `%s`" % (cname(bad[0]) if bad else ""), line_of(bad[0]) if bad else None)


def batch_rule(ctx):
    for path, one, nargs in (("pybindings::oligo::OligoComputer::vectorise_batch", "pybindings::oligo::OligoComputer::vectorise_one", 2),
                             ("pybindings::cgr::CgrComputer::vectorise_batch", "pybindings::cgr::CgrComputer::vectorise_one", 1)):
        fv = ctx.need("C13.B", path)
        if fv is None:
            continue
        who = path.split("::")[1] + "::vectorise_batch"
        rule_ordered_collects(ctx, "C13.B", fv, 1)
        t = fv.term(fv.body.get("expr")) if fv.body.get("expr") else ("none",)
        ok = False
        if t[0] == "call" and t[1].endswith("::collect") and t[2][0] == "call" and t[2][1].endswith("ParallelIterator::map"):
            src, clo = t[2][2], t[2][3]
            sp_ = ("param", param_index(fv, "seqs"))
            ok = src == ("call", "rayon::iter::IntoParallelIterator::into_par_iter", sp_) and clo[0] == "closure"
            if ok:
                body = clo[1]
                want = ("call", one, ("self",), ("cparam", 0)) + ((("param", param_index(fv, "norm")),) if nargs == 2 else ())
                ok = body == want
        ctx.check("C13.B", "%s:maps_single" % who, ok, "batch = seqs.into_par_iter().map(|s| self.vectorise_one(s, ..)).collect()",
                  "batch method is `%s`" % show(t), fv.fn["sp"])


def registration_rule(ctx):
    pyc = set()
    for i in ctx.prog.impls:
        if i.get("trait") == "pyo3::PyClass" and i.get("self_adt"):
            pyc.add(norm_path(i["self_adt"]))
    ctx.check("C13.R", "pybindings:pyclasses", pyc == PYCLASSES, "#[pyclass] types: %s" % sorted(pyc),
              "#[pyclass] types are %s, the four documented classes are %s" % (sorted(pyc), sorted(PYCLASSES)), None)
    class_names_rule(ctx)
    for unit in ("pip-pykmertools-cdylib", "conda-pykmertools-cdylib"):
        fv = ctx.view("pykmertools::pykmertools", unit)
        if fv is None:
            ctx.fail("C13.R", "%s:module" % unit.split("-")[0], "module init function not found in %s" % unit)
            continue
        reg = set()
        for n in fv.nodes:
            if n.get("k") == "mcall" and cname(n).endswith("add_class"):
                for ga in n.get("gargs", []):
                    if ga.startswith("pybindings::"):
                        reg.add(norm_path(ga))
        ctx.check("C13.R", "%s:registers_all" % unit.split("-")[0], reg == pyc and len(reg) == 4,
                  "%s registers %s" % (unit.split("-")[0], sorted(r.split("::")[-1] for r in reg)),
                  "flavour %s registers %s but the #[pyclass] types are %s" % (unit.split("-")[0], sorted(reg), sorted(pyc)),
                  fv.fn["sp"])


def class_names_rule(ctx, only=None):
    """each class is exported under its documented Python name (add_class stores a type under PyTypeInfo::NAME: two
    classes with one name overwrite each other in the module)"""
    for adt in sorted(PYCLASSES):
        short = adt.split("::")[-1]
        if only is not None and short not in only:
            continue
        fv = ctx.view("<%s as pyo3::PyTypeInfo>::NAME" % adt)
        got = fv.term(fv.fn["body"]) if fv is not None and isinstance(fv.fn.get("body"), dict) else None
        ctx.check("C13.R", "%s:python_name" % short, got == L(short), "exported as pykmertools.%s" % short,
                  "class %s is exported to Python under the name %s: `pykmertools.%s` is missing or is another class"
                  % (short, show(got) if got else "<unknown>", short), fv.fn["sp"] if fv is not None else None)


def profile_rule(ctx):
    root = repo_root()
    hits = []
    n = 0
    for dp, dn, fnames in os.walk(root):
        dn[:] = [d for d in dn if d not in ("target", ".git", "test_data")]
        for f in fnames:
            if f in ("Cargo.toml", "config.toml", "config"):
                n += 1
                try:
                    txt = open(os.path.join(dp, f)).read()
                except OSError:
                    continue
                if re.search(r'panic\s*=\s*"abort"', txt) or re.search(r"-C\s*panic=abort", txt):
                    hits.append(os.path.relpath(os.path.join(dp, f), root))
    ctx.check("C13.P", "profiles:no_panic_abort", not hits and n >= 10, "no manifest/profile sets panic = \"abort\" (%d manifests)" % n,
              "panic=abort configured in %s: a Rust panic would kill the Python interpreter instead of raising" % hits, None)



def kmer_binding_rules(ctx):
    """the Python k-mer iterator is the core iterator over the string's bytes (delegation + ownership), exported
    under its own name with its documented signature"""
    delegation_rule(ctx, PYK)
    ownership_rule(ctx, PYK)
    class_names_rule(ctx)
    py_signature_rule(ctx, only=("kmer.",))
    ctor_unguarded_rule(ctx, only=("KmerGenerator",))


def minimiser_binding_rules(ctx):
    delegation_rule(ctx, PYM)
    ownership_rule(ctx, PYM)
    class_names_rule(ctx)
    py_signature_rule(ctx, only=("min.",))
    ctor_unguarded_rule(ctx, only=("MinimiserGenerator",))



PY_SIGNATURES = {   # wrapper -> (required positional parameters, parameter names) as generated by pyo3 on the pinned tree
    "pybindings::cgr::CgrComputer::__pymethod___new____": (1, ("vecsize",)),
    "pybindings::cgr::CgrComputer::__pymethod_vectorise_batch__": (1, ("seqs",)),
    "pybindings::cgr::CgrComputer::__pymethod_vectorise_one__": (1, ("seq",)),
    "pybindings::kmer::KmerGenerator::__pymethod___new____": (2, ("seq", "ksize")),
    "pybindings::kmer::KmerGenerator::__pymethod_to_acgt__": (1, ("kmer",)),
    "pybindings::min::MinimiserGenerator::__pymethod___new____": (3, ("seq", "wsize", "msize")),
    "pybindings::min::MinimiserGenerator::__pymethod_to_acgt__": (1, ("mmer",)),
    "pybindings::oligo::OligoComputer::__pymethod___new____": (1, ("ksize",)),
    "pybindings::oligo::OligoComputer::__pymethod_vectorise_batch__": (1, ("seqs", "norm")),
    "pybindings::oligo::OligoComputer::__pymethod_vectorise_one__": (1, ("seq", "norm")),
}


def py_signature_rule(ctx, only=None):
    """the Python-visible call signatures (names, how many are required — i.e. which have defaults) are the documented
    ones: read from the argument descriptions pyo3 generates (`norm=True` lives only in the #[pyo3(signature)] attribute)"""
    for wrapper, (req, names) in sorted(PY_SIGNATURES.items()):
        fv = ctx.view(wrapper + "::DESCRIPTION")
        who = wrapper.split("::")[-3] + "." + wrapper.split("__pymethod_")[1].rstrip("_")
        if only is not None and not who.startswith(only):
            continue
        if fv is None:
            ctx.fail("C13.V", "%s:py_signature" % who, "python method `%s` is no longer exported" % who)
            continue
        got = None
        for n in fv.nodes:
            if n.get("k") == "struct" and "FunctionDescription" in (n.get("adt") or ""):
                fs = {x["name"]: fv.term(x["e"]) for x in n["fields"]}
                r_, p_ = fs.get("required_positional_parameters"), fs.get("positional_parameter_names")
                if r_ and p_ and r_[0] == "lit" and p_[0] == "array":
                    got = (r_[1], tuple(x[1] for x in p_[1:] if x[0] == "lit"))
        ctx.check("C13.V", "%s:py_signature" % who, got == (req, names),
                  "%s(%s) with %d required" % (who, ", ".join(names), req),
                  "python signature of %s is %s, documented %s: a default was lost or an argument renamed — calls that "
                  "worked raise TypeError" % (who, got, (req, names)), fv.fn["sp"])


def ctor_unguarded_rule(ctx, only=None):
    """the binding constructors only move their arguments into the core constructors: no added precondition, no early
    error (every size the core accepts is accepted from Python)"""
    for path in ("pybindings::kmer::KmerGenerator::new", "pybindings::min::MinimiserGenerator::new",
                 "pybindings::oligo::OligoComputer::new", "pybindings::cgr::CgrComputer::new"):
        fv = ctx.view(path)
        if fv is None or (only is not None and path.split("::")[-2] not in only):
            continue
        branchy = [x for x in fv.nodes if x.get("k") in ("if", "match", "ret", "try") and not x.get("mac")]
        ctx.check("C13.D", "%s:unconditional" % path.split("::")[-2], not branchy and "Result" not in (fv.fn.get("ret") or ""),
                  "builds the wrapper unconditionally",
                  "`%s` has a conditional / fallible path (returns `%s`): some arguments the core accepts are rejected or "
                  "treated differently from Python" % (path, fv.fn.get("ret")), line_of(branchy[0]) if branchy else fv.fn["sp"])
