"""C02 — reverse complement and ACGT decoding are exact inverses; strands symmetric."""
from .common import *
from ..core import straightline, Unsupported
from . import c01

EXPLANATION = (
    "Finite tables read from the type-checked program and compared exhaustively: decode arms "
    "(digit -> letter) against the property's A,C,G,T = 0..3 and against the encode table "
    "(TABLE[letter] == digit); REV_MASK constants evaluate to 3 and x ^ REV_MASK is the biological "
    "complement on the encode table. rev_comp / numeric_to_kmer loop bodies are composed "
    "symbolically (straight-line term composition, no execution) and compared with "
    "acc' = (acc<<2)|((src&3)^REV), src' = src>>2 over k iterations; the iterator's reverse register "
    "uses the same constant and geometry. Does not decide involution / text agreement for all x<4^k.")
ASSUMPTIONS = ["pop-complement-push over exactly k digits is the reverse complement (hand argument)"]

REVCOMP = "kmer::kmer::KmerGenerator::rev_comp"
N2K = "kmer::numeric_to_kmer"
TABLE = "kmer::kmer::SEQ_NT4_TABLE"
REVS = ["kmer::kmer::REV_MASK", "kmer::minimiser::REV_MASK", "kmer::kmer_minimisers::REV_MASK"]
DECODE_SPEC = {0: "A", 1: "C", 2: "G", 3: "T"}
COMPLEMENT = {"A": "T", "C": "G", "G": "C", "T": "A"}


def run(ctx):
    tab = (ctx.prog.consts.get(TABLE) or {}).get("bytes")
    if tab is None:
        ctx.fail("C02.T1", "%s:anchor" % TABLE, "encode table not found")
        return
    decode_rules(ctx, tab)
    # T2: complement constants
    for rp in REVS:
        c = ctx.prog.consts.get(rp)
        v = c.get("scalar") if c else None
        ctx.check("C02.T2", "%s:value" % rp, v == 3, "%s = 3" % rp,
                  "%s evaluates to %r; complementing a 2-bit base is XOR 3" % (rp, v),
                  c["sp"] if c else None)
        if v is not None:
            for x, cx in COMPLEMENT.items():
                for letter in (x, x.lower()):
                    got = tab[ord(letter)] ^ v
                    want = tab[ord(cx)]
                    ctx.check("C02.T2", "%s:comp_%s" % (rp, letter), got == want,
                              "code(%s)^%d = code(%s)" % (letter, v, cx),
                              "code(%s) ^ %s = %d but code(complement %s) = %d" % (letter, rp, got, cx, want),
                              c["sp"])
    ctx.floor("C02.T2", 3 + 24)
    revcomp_rules(ctx)
    # S3: iterator reverse register uses the same constant/geometry; pair order
    fv = ctx.need("C02.S3", c01.NEXT)
    fv_new = ctx.need("C02.S3", c01.NEW)
    if fv is not None and fv_new is not None:
        rule_register_updates(ctx, "C02.S3", fv, "KmerGenerator", TABLE, REVS[0], "fval", "rval", "len",
                              "mask", "shift")
        rule_geometry(ctx, "C02.S3", fv_new, c01.ADT, "mask", "shift", "ksize", [])
        rets = [n for n in fv.nodes if n.get("k") == "ret" and some_of(fv.term(n.get("e"))) is not None]
        good = rets and all(some_of(fv.term(n["e"])) == ("tup", SF("fval"), SF("rval")) for n in rets)
        ctx.check("C02.S3", "next:pair", bool(good), "items are (forward register, reverse register)",
                  "an emitted pair is not (fval, rval)", line_of(rets[0]) if rets else fv.fn["sp"])
    # strand symmetry of the stream needs the whole iterator discipline (updates only on clean bytes, reset, emission)
    c01.run(dep(ctx, "C02", "C01"))


def decode_rules(ctx, tab):
    fv = ctx.need("C02.T1", N2K)
    if fv is None:
        return
    m = next((n for n in fv.nodes if n.get("k") == "match"), None)
    if m is None:
        if table_decode_rules(ctx, fv, tab):
            return
        if chain_decode_rules(ctx, fv, tab):
            return
        ctx.fail("C02.T1", "numeric_to_kmer:match", "digit -> letter mapping (match on `code & 3`, or a 4-entry letter "
                 "table indexed by it) not found", fv.fn["sp"])
        return
    # scrutinee = <working copy> & 3
    st = fv.term(m["e"])
    pi = param_index(fv, "kmer")
    work = [b for lid, b in fv.binds.items() if b["mut"] and (b["val"] == ("param", pi) or (
        b["val"][0] == "node" and fv.term(b["val"][1]) == ("param", pi)))]
    ok = st[0] == "bin" and st[1] == "&" and L(3) in (st[2], st[3])
    ctx.check("C02.T1", "numeric_to_kmer:scrutinee", ok, "digit = %s" % show(st),
              "decode scrutinee is `%s`, expected `<code> & 3`" % show(st), line_of(m))
    arms = {}
    wild_ok = True
    for a in m["arms"]:
        p = a["pat"]
        if p.get("k") == "plit":
            bt = fv.term(a["body"])
            arms[p["v"]] = bt[1] if bt[0] == "lit" else None
            if isinstance(arms[p["v"]], int) and 0 <= arms[p["v"]] < 256 and a["body"].get("ty") == "u8":
                arms[p["v"]] = chr(arms[p["v"]])       # a byte literal b'A' names the same letter
        elif p.get("k") == "pwild":
            wild_ok = diverges(a["body"])
    for d, letter in DECODE_SPEC.items():
        got = arms.get(d)
        ctx.check("C02.T1", "numeric_to_kmer:digit_%d" % d, got == letter,
                  "%d -> %r" % (d, letter), "digit %d decodes to %r, the property requires %r" % (d, got, letter),
                  line_of(m))
        if got is not None and isinstance(got, str) and len(got) == 1:
            ctx.check("C02.T1", "numeric_to_kmer:reencode_%d" % d, tab[ord(got)] == d,
                      "TABLE[%r] = %d" % (got, d),
                      "decoded letter %r re-encodes to %d, not %d" % (got, tab[ord(got)], d), line_of(m))
    extra = set(arms) - set(DECODE_SPEC)
    ctx.check("C02.T1", "numeric_to_kmer:no_extra", not extra and wild_ok,
              "no other digit produces a letter", "extra decode arms %s or a non-diverging wildcard" % sorted(extra),
              line_of(m))
    loop_rules(ctx, fv, m)


def loop_rules(ctx, fv, m):
    rule_pure_function(ctx, "C02.S2", fv, "numeric_to_kmer")
    pi = param_index(fv, "kmer")
    work = [b for lid, b in fv.binds.items() if b["mut"] and b["val"][0] == "node"
            and fv.term(b["val"][1]) == ("param", pi)]
    if not work:
        work = [b for lid, b in fv.binds.items() if b["mut"] and b["val"] == ("param", pi)]
    # S2: loop: push(c); code >>= 2 ; k trips; result reversed
    loop = next((n for n in fv.nodes if n.get("k") == "for"), None)
    if loop is None or not work:
        ctx.fail("C02.S2", "numeric_to_kmer:loop", "digit loop / working copy not found", fv.fn["sp"])
        return
    it = fv.term(loop["iter"])
    kp = param_index(fv, "k")
    trip_ok = it[0] == "struct" and it[1].endswith("ops::Range") and dict(it[2]).get("start") == L(0) \
        and dict(it[2]).get("end") == ("param", kp)
    ctx.check("C02.S2", "numeric_to_kmer:trips", trip_ok, "loop runs 0..k",
              "digit loop iterates %s, expected 0..k" % show(it), line_of(loop))
    wid = [lid for lid, b in fv.binds.items() if b in work][0]
    wv = ("local", fv.binds[wid]["name"], wid)
    try:
        state, eff = straightline(fv, loop["body"].get("stmts", []) + (
            [loop["body"]["expr"]] if loop["body"].get("expr") else []), [wv])
    except Unsupported as e:
        ctx.fail("C02.S2", "numeric_to_kmer:body", str(e), line_of(loop))
        return
    ctx.check("C02.S2", "numeric_to_kmer:pop", state[wv] == mk_bin(">>", wv, L(2)),
              "code >>= 2 per digit", "per-iteration code update is `%s`, expected `code >> 2`" % show(state[wv]),
              line_of(loop))
    pushes = [e for e in eff if e[0] == "call" and (e[1].endswith("String::push") or e[1].endswith("Vec::push"))]
    push_ok = len(pushes) == 1 and pushes[0][3][0] in ("match", "index", "if") and \
        contains(pushes[0][3], lambda s_: s_ == mk_bin("&", wv, L(3)))
    ctx.check("C02.S2", "numeric_to_kmer:push", push_ok, "one letter pushed per digit, from the un-shifted code",
              "expected exactly one `s.push(letter(code & 3))` before the shift; found %s"
              % [show(p) for p in pushes], line_of(loop))
    # result: chars().rev().collect()
    res = fv.term(fv.body.get("expr")) if fv.body.get("expr") else ("none",)
    names = [s[1] for s in subterms(res) if s[0] == "call"]
    n_rev = sum(1 for n in names if n.endswith("Iterator::rev"))
    # in-place reversal of the accumulator after the loop (`bytes.reverse()`), then String::from_utf8(bytes)
    top = fv.body.get("stmts", [])
    li = next((i for i, s in enumerate(top) if s is loop or (s.get("k") == "semi" and s["e"] is loop)), None)
    acc_t = pushes[0][2] if len(pushes) == 1 else None
    n_inplace = 0
    for s in (top[li + 1:] if li is not None else []):
        x = s["e"] if s.get("k") == "semi" else s
        if x.get("k") == "mcall" and cname(x).endswith("::reverse") and acc_t is not None and fv.term(x["recv"]) == acc_t:
            n_inplace += 1
    if n_inplace:
        rev_ok = n_inplace + n_rev == 1 and any(n.endswith("String::from_utf8") or n.endswith("String::from_utf8_unchecked")
                                                  for n in names) and contains(res, lambda s_: s_ == acc_t)
    else:
        rev_ok = n_rev == 1 and any(n.endswith("Iterator::collect") for n in names)
    ctx.check("C02.S2", "numeric_to_kmer:reversed", rev_ok, "LSB-first digits are reversed into reading order",
              "result `%s` is not the reversed digit string" % show(res), line_of(fv.body))


def revcomp_rules(ctx):
    fv = ctx.need("C02.S1", REVCOMP)
    if fv is None:
        return
    rule_pure_function(ctx, "C02.S1", fv, "rev_comp")
    loop = next((n for n in fv.nodes if n.get("k") == "for"), None)
    kp, sp_ = param_index(fv, "kmer"), param_index(fv, "ksize")
    muts = {lid: b for lid, b in fv.binds.items() if b["mut"] and b["val"][0] == "node"}
    src = [lid for lid, b in muts.items() if fv.term(b["val"][1]) == ("param", kp)]
    if not src:
        src = [lid for lid, b in fv.binds.items() if b["mut"] and b["val"] == ("param", kp)]
        muts.update({lid: fv.binds[lid] for lid in src})
    acc = [lid for lid, b in muts.items() if b["val"][0] == "node" and fv.term(b["val"][1]) == L(0)]
    if loop is None or len(src) != 1 or len(acc) != 1:
        ctx.fail("C02.S1", "rev_comp:shape", "expected one accumulator starting at 0, one working copy of the "
                 "argument and one loop", fv.fn["sp"])
        return
    sv = ("local", muts[src[0]]["name"], src[0])
    av = ("local", muts[acc[0]]["name"], acc[0])
    it = fv.term(loop["iter"])
    trip_ok = it[0] == "struct" and dict(it[2]).get("start") == L(0) and dict(it[2]).get("end") == ("param", sp_)
    ctx.check("C02.S1", "rev_comp:trips", trip_ok, "loop runs 0..ksize",
              "rev_comp iterates %s, expected 0..ksize" % show(it), line_of(loop))
    try:
        body = loop["body"]
        state, eff = straightline(fv, body.get("stmts", []) + ([body["expr"]] if body.get("expr") else []),
                                  [sv, av])
    except Unsupported as e:
        ctx.fail("C02.S1", "rev_comp:body", str(e), line_of(loop))
        return
    exp_acc = B("|", B("<<", av, L(2)), B("^", B("&", sv, L(3)), L(3)))
    ctx.check("C02.S1", "rev_comp:push", tmatch(exp_acc, state[av]) is not None,
              "acc' = %s" % show(state[av]),
              "per-iteration accumulator is `%s`, expected `(acc << 2) | ((code & 3) ^ REV_MASK)`" % show(state[av]),
              line_of(loop))
    ctx.check("C02.S1", "rev_comp:pop", state[sv] == mk_bin(">>", sv, L(2)), "code' = code >> 2",
              "per-iteration code update is `%s`, expected `code >> 2`" % show(state[sv]), line_of(loop))
    res = fv.term(fv.body.get("expr")) if fv.body.get("expr") else ("none",)
    ctx.check("C02.S1", "rev_comp:result", res == av, "accumulator returned",
              "rev_comp returns `%s`, not the accumulator" % show(res), line_of(fv.body))



def table_decode_rules(ctx, fv, tab):
    """alternative shape: `LETTERS[(code & 3) as usize]` with a compiler-evaluated [char; 4] / [u8; 4] constant"""
    idx = [n for n in fv.nodes if n.get("k") == "index" and fv.term(n["e"])[0] == "const"]
    if len(idx) != 1:
        return False
    n = idx[0]
    c = ctx.prog.consts.get(fv.term(n["e"])[1])
    letters = None
    if c is not None and c.get("chars"):
        letters = c["chars"]
    elif c is not None and c.get("bytes"):
        letters = [chr(b) for b in c["bytes"]]
    if letters is None:
        return False
    it = fv.term(n["i"])
    ok = it[0] == "bin" and it[1] == "&" and L(3) in (it[2], it[3])
    ctx.check("C02.T1", "numeric_to_kmer:scrutinee", ok, "digit = %s" % show(it),
              "decode index is `%s`, expected `<code> & 3`" % show(it), line_of(n))
    for d, letter in DECODE_SPEC.items():
        got = letters[d] if d < len(letters) else None
        ctx.check("C02.T1", "numeric_to_kmer:digit_%d" % d, got == letter, "%d -> %r" % (d, letter),
                  "digit %d decodes to %r, the property requires %r" % (d, got, letter), line_of(n))
        if got is not None and len(got) == 1:
            ctx.check("C02.T1", "numeric_to_kmer:reencode_%d" % d, tab[ord(got)] == d, "TABLE[%r] = %d" % (got, d),
                      "decoded letter %r re-encodes to %d, not %d" % (got, tab[ord(got)], d), line_of(n))
    ctx.check("C02.T1", "numeric_to_kmer:no_extra", len(letters) == 4, "exactly four letters",
              "letter table has %d entries" % len(letters), line_of(n))
    loop_rules(ctx, fv, n)
    return True



def chain_decode_rules(ctx, fv, tab):
    """alternative shape: `if d == 0 { 'A' } else if d == 1 { 'C' } else if d == 2 { 'G' } else { 'T' }` with
    d = code & 3 — the digit -> letter table is read off by evaluating the chain for d = 0..3"""
    def ev(t, d):
        for _ in range(8):
            if t[0] == "lit":
                return t[1]
            if t[0] != "if":
                return None
            c = t[1]
            if not (c[0] == "bin" and c[1] in ("==", "!=")):
                return None
            lits = [x for x in (c[2], c[3]) if x[0] == "lit" and isinstance(x[1], int)]
            others = [x for x in (c[2], c[3]) if x[0] != "lit"]
            if len(lits) != 1 or len(others) != 1:
                return None
            o = others[0]
            if not (o[0] == "bin" and o[1] == "&" and L(3) in (o[2], o[3])):
                return None
            hit = (lits[0][1] == d) == (c[1] == "==")
            t = t[2] if hit else t[3]
        return None
    for n in fv.nodes:
        if n.get("k") != "if" or fv.parent.get(id(n), {}).get("k") == "if":
            continue
        t = fv.term(n)
        vals = [ev(t, d) for d in range(4)]
        if any(v is None for v in vals):
            continue
        letters = [chr(v) if isinstance(v, int) else v for v in vals]
        c0 = t[1]
        scr = [x for x in (c0[2], c0[3]) if x[0] != "lit"][0]
        ctx.check("C02.T1", "numeric_to_kmer:scrutinee", True, "digit = %s" % show(scr), "", line_of(n))
        for d, letter in DECODE_SPEC.items():
            got = letters[d]
            ctx.check("C02.T1", "numeric_to_kmer:digit_%d" % d, got == letter, "%d -> %r" % (d, letter),
                      "digit %d decodes to %r, the property requires %r" % (d, got, letter), line_of(n))
            if isinstance(got, str) and len(got) == 1:
                ctx.check("C02.T1", "numeric_to_kmer:reencode_%d" % d, tab[ord(got)] == d, "TABLE[%r] = %d" % (got, d),
                          "decoded letter %r re-encodes to %d, not %d" % (got, tab[ord(got)], d), line_of(n))
        ctx.check("C02.T1", "numeric_to_kmer:no_extra", True, "a two-bit digit has exactly four values", "", line_of(n))
        loop_rules(ctx, fv, n)
        return True
    return False
