"""C18 — minimiser+k-mers iterator agrees with the plain one and conserves all w-mers."""
from .common import *
from . import minimiser, c09
from ..core import sym_paths

EXPLANATION = (
    "Agreement of the two separately maintained state machines as program equivalence by projection: "
    "the symbolically composed paths of one loop iteration of KmerMinimiserGenerator::next, with the "
    "k-register state (k_val_*, k_buff, prev_k_buff, 4th tuple component) projected out and checked "
    "for non-interference, are compared as a set with the paths of MinimiserGenerator::next (I); the "
    "constructors agree field by field (I); k-register geometry 2^(2w)-1 / 2w-2, update slots, "
    "push-on-saturation of min(k_f, k_r) (K); every emission carries the per-call k-list, which is a "
    "fresh local of next() (H); plus the sentinel / run-closure / reset rules of C09 on this copy. "
    "Does not decide w-mer values.")
ASSUMPTIONS = ["C09's assumptions"]

PROJ_FIELDS = {"k_mask", "k_val_f", "k_val_r", "k_val_l", "k_shift"}
PROJ_LOCALS = {"k_buff", "prev_k_buff"}


def mentions_proj(t):
    return contains(t, lambda s: (s[0] == "field" and s[1] == ("self",) and s[2] in PROJ_FIELDS) or
                    (s[0] == "local" and s[1] in PROJ_LOCALS))


def strip_lines(t):
    if not isinstance(t, tuple):
        if isinstance(t, str):
            return t.replace("kmer::kmer_minimisers::", "kmer::X::").replace("kmer::minimiser::", "kmer::X::")
        return t
    if t and t[0] == "loopval":
        return ("loopval", t[1])
    if t and t[0] == "local" and len(t) == 3:
        return ("local", t[1])
    return tuple(strip_lines(x) for x in t)


def signature(sp, project):
    conds = []
    for t, pol, _ in sp.conds:
        if project and mentions_proj(t):
            continue
        ev = exhaustion_verdict(t, pol)
        if ev is not None:
            conds.append(("<input exhausted>", ev))
            continue
        # one spelling per comparison outcome: `!(a <= b)` is `b < a`, `!(a < b)` is `b <= a`, `!(a == b)` is `a != b`
        if not pol and t[0] == "bin" and t[1] in ("<", "<=", "==", "!="):
            t, pol = {"<": mk_bin("<=", t[3], t[2]), "<=": mk_bin("<", t[3], t[2]),
                      "==": mk_bin("!=", t[2], t[3]), "!=": mk_bin("==", t[2], t[3])}[t[1]], True
        conds.append((repr(strip_lines(t)), pol))
    state = []
    for k, v in sp.state.items():
        if project and ((k[0] == "field" and k[2] in PROJ_FIELDS) or (k[0] == "local" and k[1] in PROJ_LOCALS)):
            continue
        if k[0] == "local":
            # per-call scratch locals are not part of the machine's state
            continue
        state.append((repr(strip_lines(k)), repr(strip_lines(v))))
    ret = sp.ret
    if ret is not None and some_of(ret) is not None and project:
        tup = some_of(ret)
        ret = ("call", "Some", ("tup",) + tuple(tup[1:4]))
    elif ret is not None and some_of(ret) is not None:
        ret = ("call", "Some", some_of(ret))
    elif ret is not None and is_none(ret):
        ret = ("none",)
    return (tuple(sorted(set(conds))), tuple(sorted(state)), repr(strip_lines(ret)) if ret is not None else None, sp.exit[0])


def run(ctx):
    g = minimiser.GENS["kmers"]
    p = minimiser.GENS["plain"]
    rule_nt4_table(ctx, "C18.K", g["table"])
    # agreement is quantified over ALL byte strings (incl. 0x00-0x03): the byte tables of the iterators must be identical
    tabs = {path: (ctx.prog.consts.get(path) or {}).get("bytes") for path in
            (g["table"], p["table"], "kmer::kmer::SEQ_NT4_TABLE")}
    ref = tabs[p["table"]]
    for path, t in tabs.items():
        diff = [b for b in range(256) if t is None or ref is None or t[b] != ref[b]]
        ctx.check("C18.T", "%s:same_table" % path, t is not None and not diff,
                  "byte table identical to the plain minimiser iterator's (256 entries)",
                  "byte table `%s` differs from `%s` at bytes %s: the iterators classify the same input differently"
                  % (path, p["table"], diff[:8]), (ctx.prog.consts.get(path) or {}).get("sp"))
    fnew = ctx.need("C18.K", g["new"])
    fv = ctx.need("C18.K", g["next"])
    if fnew is not None:
        rule_geometry(ctx, "C18.K", fnew, g["adt"], "k_mask", "k_shift", "wsize", ["k_val_f", "k_val_r", "k_val_l"])
        rule_geometry(ctx, "C18.G", fnew, g["adt"], "m_mask", "m_shift", "msize",
                      ["m_val_f", "m_val_r", "m_val_l", "pos", "buff_pos", "m_window_start"])
    if fv is not None:
        rule_register_updates(ctx, "C18.K", fv, g["name"] + ".k", g["table"], g["rev"], "k_val_f", "k_val_r", "k_val_l",
                              "k_mask", "k_shift")
        rule_register_updates(ctx, "C18.U", fv, g["name"] + ".m", g["table"], g["rev"], "m_val_f", "m_val_r", "m_val_l",
                              "m_mask", "m_shift")
        c09.length_rule(ctx, "C18.U", fv, g["name"], "m_val_l", "msize")
    paths_k = minimiser.run(ctx, "C18", "kmers")
    fp = ctx.need("C18.I", p["next"])
    if fv is None or fp is None or paths_k is None:
        return
    root_p, loop_p = iteration_node(fp)
    paths_p = sym_paths(fp, root_p)
    # ---- I: equivalence under projection
    interfering = []
    for sp in paths_k:
        for t, pol, node in sp.conds:
            if mentions_proj(t) and contains(t, lambda s: s[0] == "field" and s[1] == ("self",) and s[2] not in PROJ_FIELDS
                                             and s[2] not in ("wsize",)):
                interfering.append(("condition `%s` mixes k-register and run state" % show(t), node))
        for k, v in sp.state.items():
            if k[0] == "field" and k[2] not in PROJ_FIELDS and mentions_proj(v):
                interfering.append(("run-state field `%s` receives `%s`, which depends on the k-register state" % (k[2], show(v)), None))
        if sp.ret is not None and some_of(sp.ret) is not None:
            tup = some_of(sp.ret)
            if any(mentions_proj(x) for x in tup[1:4]):
                interfering.append(("a (minimiser, start, end) component depends on the k-register state", sp.exit[1]))
    ctx.check("C18.I", "non_interference", not interfering,
              "no retained condition, field or run component reads the k-register state",
              interfering[0][0] if interfering else "", line_of(interfering[0][1]) if interfering and interfering[0][1] else None)
    sk = set(signature(sp, True) for sp in paths_k)
    spn = set(signature(sp, False) for sp in paths_p)
    only_k = sk - spn
    only_p = spn - sk
    detail = ""
    if only_k or only_p:
        a = sorted(only_k, key=repr)[0] if only_k else None
        b = sorted(only_p, key=repr)[0] if only_p else None
        detail = ("%d path(s) of the k-mer-reporting machine have no counterpart and %d of the plain machine have none. "
                  % (len(only_k), len(only_p)))
        detail += diff_hint(a, b, only_k, only_p)
    ctx.check("C18.I", "next:paths_equal_under_projection", not only_k and not only_p,
              "%d projected paths of KmerMinimiserGenerator::next == %d paths of MinimiserGenerator::next"
              % (len(sk), len(spn)),
              "the two state machines differ after projecting out the k-register: " + detail, fv.fn["sp"])
    # constructors
    fnp = ctx.need("C18.I", p["new"])
    if fnew is not None and fnp is not None:
        la, lb = struct_literal(fnew, g["adt"]), struct_literal(fnp, p["adt"])
        if la is not None and lb is not None:
            fa = {k: repr(v) for k, v in struct_fields(fnew, la).items() if k not in PROJ_FIELDS}
            fb = {k: repr(v) for k, v in struct_fields(fnp, lb).items()}
            ctx.check("C18.I", "new:fields_equal_under_projection", fa == fb,
                      "constructors initialise the shared %d fields identically" % len(fb),
                      "constructors differ on %s" % sorted(k for k in set(fa) | set(fb) if fa.get(k) != fb.get(k)),
                      line_of(la))
    # ---- K: push on saturation
    pushes_ok = True
    why = ""
    n_push = 0
    for sp in paths_k:
        if minimiser.classify(sp) != "clean":
            continue
        sat = [(t, pol) for t, pol, _ in sp.conds if t[0] == "bin" and t[1] == "==" and
               contains(t, lambda s: s == SF("k_val_l")) and contains(t, lambda s: s == SF("wsize"))]
        pushes = [e for e in sp.effects if e[0] == "push" and e[1][0] == "local" and e[1][1] == "k_buff"]
        if not sat:
            if pushes:
                pushes_ok, why = False, "a w-mer is pushed without the saturation test k_val_l == wsize"
            continue
        t, pol = sat[0]
        want_l = mk_bin("+", SF("k_val_l"), L(1))
        if not (t == mk_bin("==", want_l, SF("wsize"))):
            pushes_ok, why = False, "saturation test is `%s`, expected (k_val_l + 1) == wsize after the increment" % show(t)
        if pol:
            n_push += 1
            kf = sp.state.get(SF("k_val_f"))
            kr = sp.state.get(SF("k_val_r"))
            if len(pushes) != 1 or kf is None or kr is None or pushes[0][2] != mk_bin("min", kf, kr):
                pushes_ok, why = False, "on saturation exactly one push of min(k_val_f, k_val_r) is expected, found %s" % [show(x[2]) for x in pushes]
            if poly(sp.state.get(SF("k_val_l"), SF("k_val_l"))) != poly(SF("k_val_l")):
                pushes_ok, why = False, "k_val_l is not decremented after the push (saturation at wsize)"
        else:
            if pushes:
                pushes_ok, why = False, "a w-mer is pushed although fewer than w clean bases are available"
    # the list only ever grows by those pushes (and is cleared / handed over whole): no other mutation touches it
    ALLOWED_K = {"push", "clear", "clone_from", "clone", "len", "is_empty", "iter", "as_slice", "reserve", "shrink_to_fit",
                 "capacity", "with_capacity", "deref", "extend_from_slice"}
    foreign = None
    for n_ in fv.nodes:
        if n_.get("k") == "mcall":
            r_ = n_["recv"]
            while r_.get("k") in ("addr", "un") and r_.get("e") is not None:
                r_ = r_["e"]
            if r_.get("k") == "local" and r_.get("name") in PROJ_LOCALS and cname(n_).split("::")[-1] not in ALLOWED_K \
                    and str(n_["recv"].get("aty", n_["recv"].get("ty", ""))).startswith("&mut"):
                foreign = foreign or n_
    ctx.check("C18.K", "next:k_list_only_pushed", foreign is None, "the w-mer list is only pushed to, cleared or handed over",
              "the w-mer list is also modified by `%s`: w-mers of valid windows would be dropped, merged or reordered"
              % (cname(foreign) if foreign else ""), line_of(foreign) if foreign else None)
    ctx.check("C18.K", "next:push_on_saturation", pushes_ok and n_push >= 1,
              "w-mer min(k_f, k_r) pushed exactly when k_val_l reaches wsize (%d paths)" % n_push, why or "no pushing path found",
              fv.fn["sp"])
    # ---- H: every emission carries the call's k-list
    top = fv.body.get("stmts", [])
    fresh = [s for s in top if s.get("k") == "let" and s["pat"].get("name") == "k_buff"
             and fv.term(s.get("init"))[0] == "call" and fv.term(s["init"])[1].endswith("Vec::new")]
    ctx.check("C18.H", "next:k_list_is_per_call", len(fresh) == 1, "k_buff is a fresh Vec per call of next()",
              "k_buff is not a fresh local Vec declared at the top of next(): w-mers could leak between calls or be lost",
              fv.fn["sp"])
    badH = None
    nH = 0
    for sp in paths_k:
        if sp.ret is None or some_of(sp.ret) is None:
            continue
        tup = some_of(sp.ret)
        if len(tup) != 5:
            continue
        nH += 1
        d = tup[4]
        base = d[1] if d[0] == "ver" else d
        cleared_before = False
        okp = False
        if base[0] == "local" and base[1] == "k_buff":
            okp = not any(e[0] == "clear" and e[1] == base for e in sp.effects)
        elif base[0] == "local" and base[1] == "prev_k_buff":
            # last effect on prev_k_buff is clone_from(<k_buff not yet cleared>)
            seen_clear = False
            for e in sp.effects:
                if e[0] == "clear" and e[1][0] == "local" and e[1][1] == "k_buff":
                    seen_clear = True
                if e[0] == "clone_from" and e[1] == base:
                    src = e[2]
                    sb = src[1] if src[0] == "ver" else src
                    okp = (sb[0] == "local" and sb[1] == "k_buff") and not seen_clear
        elif d[0] == "call" and d[1] in ("std::mem::take", "core::mem::take", "std::mem::replace", "core::mem::replace"):
            # the list is handed over by value at the moment of the take: it must be the call's list, not yet cleared
            src = d[2]
            sb = src[1] if src[0] == "ver" else src
            okp = sb[0] == "local" and sb[1] == "k_buff" and not (src[0] == "ver" and src[3] != "push")
        if not okp and badH is None:
            badH = (sp, d)
    ctx.check("C18.H", "next:emissions_carry_k_list", badH is None and nH >= 3,
              "all %d emitting paths hand out the call's k-list (not cleared before)" % nH,
              "an emission hands out `%s` instead of the k-list accumulated in this call (w-mers are lost)"
              % (show(badH[1]) if badH else "?"), line_of(badH[0].exit[1]) if badH else fv.fn["sp"])


def diff_hint(a, b, only_k, only_p):
    """first differing component between the closest pair of unmatched paths"""
    best = None
    for x in only_k:
        for y in only_p:
            score = sum(1 for i in range(4) if x[i] == y[i]) * 1000 + len(set(x[0]) & set(y[0])) + len(set(x[1]) & set(y[1]))
            if best is None or score > best[0]:
                best = (score, x, y)
    if best is None:
        one = a or b
        return "unmatched path: conds=%s ret=%s" % ([("" if p else "!") + c[:80] for c, p in one[0]][-3:], one[2])
    _, x, y = best
    out = []
    if x[0] != y[0]:
        out.append("conditions differ: k-mer copy %s vs plain %s" % (sorted(set(x[0]) - set(y[0]))[:2], sorted(set(y[0]) - set(x[0]))[:2]))
    if x[1] != y[1]:
        out.append("state updates differ: k-mer copy %s vs plain %s" % (sorted(set(x[1]) - set(y[1]))[:2], sorted(set(y[1]) - set(x[1]))[:2]))
    if x[2] != y[2]:
        out.append("emitted value differs: %s vs %s" % (x[2], y[2]))
    if x[3] != y[3]:
        out.append("exit differs: %s vs %s" % (x[3], y[3]))
    return "; ".join(out)[:900]
