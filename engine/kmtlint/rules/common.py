"""Rule families shared by several properties."""
from ..core import (B, L, SF, W, FnView, cname, rname, is_call_to, call_args, children, walk, line_of,
                    show, tmatch, poly, pshow, pow2form, pow2show, linform, is_none, some_of, is_len_of, NotPoly, enum_paths,
                    TooManyPaths, diverges, subterms, contains, mk_bin, fmt_template, decode_format, lift_if, if_leaves, string_pieces,
                    decode_arguments)
from ..facts import norm_path
from ..core import int_width, INT_TYS

# --------------------------------------------------------------------------- spec tables

def nt4_spec():
    """Property C01: A a->0, C c->1, G g->2, T t U u->3, every other byte (4..=255) -> 4."""
    t = {b: 4 for b in range(4, 256)}
    for ch, v in (("A", 0), ("C", 1), ("G", 2), ("T", 3), ("U", 3)):
        t[ord(ch)] = v
        t[ord(ch.lower())] = v
    return t


def rule_nt4_table(ctx, rule, const_path):
    c = ctx.prog.consts.get(const_path)
    if c is None or c.get("bytes") is None:
        ctx.fail(rule, "%s:anchor" % const_path,
                 "byte classification table `%s` not found as a compiler-evaluated [u8; 256] constant"
                 % const_path)
        return None
    tab = c["bytes"]
    if len(tab) != 256:
        ctx.fail(rule, "%s:len" % const_path, "table has %d entries, expected 256" % len(tab), c["sp"])
        return None
    spec = nt4_spec()
    bad = 0
    for b in range(4, 256):
        if tab[b] != spec[b]:
            bad += 1
            ctx.fail(rule, "%s:byte_%d" % (const_path, b),
                     "table[%d] (%r) = %d but the property requires %d" % (b, chr(b), tab[b], spec[b]),
                     c["sp"])
        else:
            ctx.ok(rule, "%s:byte_%d" % (const_path, b), "table[%d]=%d" % (b, tab[b]), c["sp"])
    return tab


# --------------------------------------------------------------------------- helpers

def self_field_writes(fv, field, root=None):
    """[(node, new_value_term)] for every `self.<field> = e` / `self.<field> op= e`."""
    out = []
    for n in (walk(root) if root is not None else fv.nodes):
        if n.get("k") in ("assign", "assignop"):
            lt = fv.term(n["l"])
            if lt == SF(field):
                if n["k"] == "assign":
                    out.append((n, fv.term(n["r"])))
                else:
                    op = n["op"].rstrip("=")
                    out.append((n, mk_bin(op, lt, fv.term(n["r"]))))
    return out


def local_writes(fv, lid, root=None):
    out = []
    for n in (walk(root) if root is not None else fv.nodes):
        if n.get("k") in ("assign", "assignop") and n["l"].get("k") == "local" and n["l"]["id"] == lid:
            if n["k"] == "assign":
                out.append((n, fv.term(n["r"])))
            else:
                out.append((n, mk_bin(n["op"].rstrip("="), fv.term(n["l"]), fv.term(n["r"]))))
    return out


def struct_literal(fv, adt):
    for n in fv.nodes:
        if n.get("k") == "struct" and norm_path(n.get("adt") or n.get("path", "")) == adt:
            return n
    return None


def struct_fields(fv, lit):
    return {f["name"]: fv.term(f["e"]) for f in lit.get("fields", [])}


def is_param(fv, t, name):
    """Is term t the function parameter called `name`?"""
    if t[0] != "param":
        return False
    ps = fv.fn.get("params", [])
    return t[1] < len(ps) and ps[t[1]].get("name") == name


def param_index(fv, name):
    for i, p in enumerate(fv.fn.get("params", [])):
        if p.get("name") == name:
            return i
    return None


def consts_of(ctx):
    return ctx.prog.consts


def const_scalar(ctx, t):
    if t[0] == "const":
        c = ctx.prog.consts.get(t[1])
        if c is not None:
            return c.get("scalar")
    if t[0] == "lit" and isinstance(t[1], int):
        return t[1]
    return None


# --------------------------------------------------------------------------- register geometry

def rule_geometry(ctx, rule, fv_new, adt, mask_f, shift_f, size_param, zero_fields, extra=None):
    """struct literal in `new`: mask == 2^(2K)-1, shift == 2K-2 (A3 normal forms),
    listed fields start at 0."""
    lit = struct_literal(fv_new, adt)
    if lit is None:
        ctx.fail(rule, "%s:literal" % adt, "constructor no longer builds `%s` with a struct literal" % adt,
                 fv_new.fn["sp"])
        return None
    fs = struct_fields(fv_new, lit)
    pi = param_index(fv_new, size_param)
    ksym = lambda t: t == ("param", pi)
    # mask: 2-adic normal form; shift: linear normal form
    key = "%s.%s" % (adt, mask_f)
    t = fs.get(mask_f)
    if t is None:
        ctx.fail(rule, key, "field `%s` is not initialised in the literal" % mask_f, line_of(lit))
    else:
        try:
            got = pow2form(t, ksym, ctx.prog.consts)
            ctx.check(rule, key, _p2eq(got, {(2, 0): 1, (0, 0): -1}),
                      "%s = %s ≡ 2^(2k) - 1" % (mask_f, show(t)),
                      "%s = %s normalises to %s, expected 2^(2k) - 1 (k = parameter `%s`)"
                      % (mask_f, show(t), pow2show(got), size_param), line_of(lit))
        except NotPoly as e:
            ctx.fail(rule, key, "%s = %s — %s" % (mask_f, show(t), e), line_of(lit))
    key = "%s.%s" % (adt, shift_f)
    t = fs.get(shift_f)
    if t is None:
        ctx.fail(rule, key, "field `%s` is not initialised in the literal" % shift_f, line_of(lit))
    else:
        try:
            got = linform(t, ksym, ctx.prog.consts)
            ctx.check(rule, key, got == (2, -2), "%s = %s ≡ 2k - 2" % (shift_f, show(t)),
                      "%s = %s normalises to %sk%+d, expected 2k - 2 (k = parameter `%s`)"
                      % (shift_f, show(t), got[0], got[1], size_param), line_of(lit))
        except NotPoly as e:
            ctx.fail(rule, key, "%s = %s — %s" % (shift_f, show(t), e), line_of(lit))
    # register geometry is computed in 64-bit integers throughout (an untyped `1 << bits` is an i32 shift)
    fnodes = {f["name"]: f["e"] for f in lit.get("fields", [])}
    for f in (mask_f, shift_f):
        narrow = narrow_arith(fv_new, fnodes.get(f)) if fnodes.get(f) is not None else []
        ctx.check(rule, "%s.%s:width" % (adt, f), not narrow, "%s is computed in 64-bit arithmetic" % f,
                  "`%s` is computed through a %s operation `%s`: for k >= 16 the value needs more than 32 bits "
                  "(shift overflow panic in debug builds, silently wrong codes in release builds)"
                  % (f, narrow[0].get("ty") if narrow else "", show(fv_new.term(narrow[0])) if narrow else ""),
                  line_of(narrow[0]) if narrow else None)
    for f in zero_fields:
        key = "%s.%s" % (adt, f)
        t = fs.get(f)
        ctx.check(rule, key, t == L(0), "%s starts at 0" % f,
                  "field `%s` starts at %s, expected 0" % (f, show(t) if t else "<missing>"), line_of(lit))
    for f, (pred, txt) in (extra or {}).items():
        key = "%s.%s" % (adt, f)
        t = fs.get(f)
        ctx.check(rule, key, t is not None and pred(t), "%s = %s" % (f, txt),
                  "field `%s` = %s, expected %s" % (f, show(t) if t else "<missing>", txt), line_of(lit))
    return fs


def _p2eq(a, b):
    def canon(f):
        # express every term as c*2^(a k + b) with c odd (or the linear form as a plain integer when a == 0)
        out = {}
        for (ea, eb), c in f.items():
            if ea == 0:
                # pure constants: evaluate (b must be integral)
                out[("const",)] = out.get(("const",), 0) + c * (2 ** int(eb))
                continue
            while c % 2 == 0 and c != 0:
                c //= 2
                eb += 1
            out[(ea, eb)] = out.get((ea, eb), 0) + c
        return {k: v for k, v in out.items() if v != 0}
    return canon(a) == canon(b)


# --------------------------------------------------------------------------- rolling update slots

def class_term(table_const):
    """term of `TABLE[self.seq[self.pos]]`"""
    return ("index", ("const", table_const), ("index", SF("seq"), SF("pos")))


def rule_register_updates(ctx, rule, fv, who, table_const, rev_const, f, r, l, mask, shift):
    """Forward slot f <- ((f<<2)|c)&mask ; reverse slot r <- (r>>2)|((c^REV)<<shift) ;
    length slot l += 1; all in the same (clean) branch."""
    c = class_term(table_const)
    fw = [(n, t) for n, t in self_field_writes(fv, f) if t != L(0)]
    rw = [(n, t) for n, t in self_field_writes(fv, r) if t != L(0)]
    exp_f = B("&", B("|", B("<<", SF(f), L(2)), c), SF(mask))
    exp_r = B("|", B(">>", SF(r), L(2)), B("<<", B("^", c, L(3)), SF(shift)))
    ok = True
    key = "%s.%s" % (who, f)
    if len(fw) != 1:
        ctx.fail(rule, key, "expected exactly one non-reset update of forward register `%s`, found %d"
                 % (f, len(fw)), fv.fn["sp"])
        ok = False
    else:
        n, t = fw[0]
        ok &= ctx.check(rule, key, tmatch(exp_f, t) is not None,
                        "%s <- %s" % (f, show(t)),
                        "forward update is `%s`, expected `((%s << 2) | class) & %s` with class = TABLE[seq[pos]]"
                        % (show(t), f, mask), line_of(n))
    key = "%s.%s" % (who, r)
    if len(rw) != 1:
        ctx.fail(rule, key, "expected exactly one non-reset update of reverse register `%s`, found %d"
                 % (r, len(rw)), fv.fn["sp"])
        ok = False
    else:
        n, t = rw[0]
        ok &= ctx.check(rule, key, tmatch(exp_r, t) is not None,
                        "%s <- %s" % (r, show(t)),
                        "reverse update is `%s`, expected `(%s >> 2) | ((class ^ %s) << %s)`"
                        % (show(t), r, rev_const.split("::")[-1], shift), line_of(n))
    return ok


def clean_guard_set(ctx, fv, cond, table_vals, table_const):
    """Evaluate a comparison `class <op> literal` over the table's value set.
    Returns the set of class values for which cond is true, or None if not of that shape."""
    t = fv.term(cond)
    c = class_term(table_const)
    if t[0] != "bin":
        return None
    op, a, b = t[1], t[2], t[3]
    ops = {"<": lambda x, y: x < y, "<=": lambda x, y: x <= y, "==": lambda x, y: x == y,
           "!=": lambda x, y: x != y}
    if op not in ops:
        return None
    if a == c and b[0] == "lit":
        return {v for v in table_vals if ops[op](v, b[1])}
    if b == c and a[0] == "lit":
        return {v for v in table_vals if ops[op](a[1], v)}
    return None


# --------------------------------------------------------------------------- A9 ordered pipelines

ORDERED_SOURCES = ("rayon::slice::Iter<", "rayon::vec::IntoIter<", "rayon::range::Iter<",
                   "rayon::range_inclusive::Iter<")
ORDERED_ADAPTORS = ("rayon::iter::Map<", "rayon::iter::MapWith<", "rayon::iter::Enumerate<",
                    "rayon::iter::Cloned<", "rayon::iter::Copied<", "rayon::iter::Zip<",
                    "rayon::iter::MapInit<", "rayon::iter::Inspect<")


def pipeline_verdict(recv_ty, sink_ty):
    """A9: receiver type of a rayon collect must be an indexed, order-defined chain and the sink a Vec."""
    t = recv_ty
    steps = []
    guard = 0
    while guard < 20:
        guard += 1
        for a in ORDERED_ADAPTORS:
            if t.startswith(a):
                steps.append(a[:-1])
                t = t[len(a):]
                break
        else:
            break
    src_ok = t.startswith(ORDERED_SOURCES)
    # (rayon's `String: FromParallelIterator<String>` concatenates the pieces in input order, like Vec + concat)
    sink_ok = sink_ty.startswith("std::vec::Vec<") or sink_ty.startswith("std::result::Result<std::vec::Vec<") \
        or sink_ty in ("std::string::String", "alloc::string::String")
    bad = None
    if not src_ok:
        bad = "source/adaptor `%s…` is not an indexed order-preserving rayon producer" % t[:60]
    elif not sink_ok:
        bad = "sink `%s` is not Vec / Result<Vec>" % sink_ty[:60]
    return bad, steps


def rule_ordered_collects(ctx, rule, fv, expect_min):
    """Every rayon `collect` in fv is order preserving; no par_bridge / for_each feeding a shared sink."""
    n_found = 0
    for n in fv.nodes:
        if n.get("k") != "mcall":
            continue
        c = cname(n)
        if c == "rayon::iter::ParallelIterator::collect":
            n_found += 1
            recv_ty = n["recv"].get("ty", "")
            sink = n.get("ty", "")
            bad, steps = pipeline_verdict(recv_ty, sink)
            key = "%s:collect@%d" % (fv.path, n_found)
            ctx.check(rule, key, bad is None,
                      "collect over %s into %s" % (recv_ty[:80], sink[:40]),
                      "parallel collect is not order-preserving: %s" % bad, line_of(n))
        elif c in ("rayon::iter::ParallelBridge::par_bridge",):
            ctx.fail(rule, "%s:par_bridge" % fv.path,
                     "par_bridge() yields items in no defined order", line_of(n))
    if n_found < expect_min:
        ctx.fail(rule, "%s:collect:floor" % fv.path,
                 "expected at least %d order-preserving parallel collect(s) in %s, found %d — the batch "
                 "is no longer produced by an indexed collect" % (expect_min, fv.path, n_found), fv.fn["sp"])
    return n_found


# --------------------------------------------------------------------------- ACC family (C04/C12/C13)

GEN_NEW = "kmer::kmer::KmerGenerator::new"


def is_gu(t, mut=None):
    """slice/Vec get_unchecked(_mut) call term"""
    if t[0] != "call":
        return False
    last = t[1].split("::")[-1]
    if mut is True:
        return last == "get_unchecked_mut"
    if mut is False:
        return last == "get_unchecked"
    return last in ("get_unchecked", "get_unchecked_mut")


def acc_family(ctx, rule, fv, who, seq_term, norm_term, n_term=None, k_term=None, map_term=None):
    """Slots of a canonical-k-mer accumulation loop; reports against the reference shape.
    seq_term: term of the sequence argument of KmerGenerator::new; norm_term: the normalisation flag."""
    n_term = n_term or SF("kcount")
    k_term = k_term or SF("ksize")
    map_term = map_term or SF("pos_map")
    sp = fv.fn["sp"]
    loops = [l for l in fv.nodes if l.get("k") == "for" and "kmer::kmer::KmerGenerator<" in l.get("iter_ty", "")]
    if len(loops) != 1:
        ctx.fail(rule, "%s:source" % who, "expected exactly one loop over KmerGenerator items, found %d" % len(loops), sp)
        return
    loop = loops[0]
    it = fv.term(loop["iter"])
    ctx.check(rule, "%s:source" % who, it == ("call", GEN_NEW, seq_term, k_term),
              "items of KmerGenerator::new(%s, %s)" % (show(seq_term), show(k_term)),
              "k-mers come from `%s`, expected KmerGenerator::new(%s, %s) — the k of the generator must be the "
              "k the rank map was built with" % (show(it), show(seq_term), show(k_term)), line_of(loop))
    item = ("item", it)
    key = mk_bin("min", ("proj", 0, item), ("proj", 1, item))
    # bucket & total
    muts = {lid: b for lid, b in fv.binds.items() if b["mut"] and b["val"][0] == "node"}
    bucket = [(lid, b) for lid, b in muts.items() if zero_vec_len(fv.term(b["val"][1]), True) is not None]
    totals = [(lid, b) for lid, b in muts.items() if fv.term(b["val"][1]) == L(0.0)]
    if len(bucket) != 1 or len(totals) != 1:
        ctx.fail(rule, "%s:bucket" % who, "expected one zero-filled vector and one f64 total starting at 0.0 "
                 "(found %d / %d)" % (len(bucket), len(totals)), sp)
        return
    bl, bb = bucket[0]
    tl, tb = totals[0]
    bv = ("local", bb["name"], bl)
    tv = ("local", tb["name"], tl)
    alloc = fv.term(bb["val"][1])
    ctx.check(rule, "%s:bucket" % who, zero_vec_len(alloc) == n_term,
              "bucket = vec![0.0; %s]" % show(n_term),
              "bucket is `%s`, expected %s zeroes" % (show(alloc), show(n_term)), line_of(bb["val"][1]))
    # body: straight-line effects
    ops = [x for x in walk(loop["body"]) if x.get("k") == "assignop"]
    incs = [x for x in ops if fv.term(x["l"]) != tv]
    tots = [x for x in ops if fv.term(x["l"]) == tv]
    column = ("call", W("gu", lambda t: isinstance(t, str) and t.endswith("get_unchecked")), map_term, key)
    ok_inc = False
    detail = "<none>"
    if len(incs) == 1:
        lt = fv.term(incs[0]["l"])
        detail = "%s %s %s" % (show(lt), incs[0]["op"], show(fv.term(incs[0]["r"])))
        if lt[0] == "call" and lt[1].split("::")[-1] in ("get_unchecked_mut", "index_mut") and lt[2] == bv:
            col = lt[3]
            ok_col = col[0] == "call" and col[1].split("::")[-1] == "get_unchecked" and col[2] == map_term \
                and col[3] == key
            ok_inc = ok_col and incs[0]["op"] == "+=" and fv.term(incs[0]["r"]) == L(1.0)
        elif lt[0] == "index" and lt[1] == bv:
            col = lt[2]
            ok_col = (col[0] == "index" and col[1] == map_term and col[2] == key) or \
                (col[0] == "call" and col[1].split("::")[-1] == "get_unchecked" and col[2] == map_term and col[3] == key)
            ok_inc = ok_col and incs[0]["op"] == "+=" and fv.term(incs[0]["r"]) == L(1.0)
    ctx.check(rule, "%s:increment" % who, ok_inc,
              "bucket[rank[min(f,r)]] += 1.0 once per item",
              "per-item update is `%s` (%d updates); expected exactly one `bucket[%s[min(fwd,rev)]] += 1.0`"
              % (detail, len(incs), show(map_term)), line_of(incs[0]) if incs else line_of(loop))
    ok_tot = len(tots) == 1 and tots[0]["op"] == "+=" and fv.term(tots[0]["r"]) == L(1.0)
    ctx.check(rule, "%s:total" % who, ok_tot, "total += 1.0 once per item",
              "total is updated %d time(s) per item / not by 1.0" % len(tots),
              line_of(tots[0]) if tots else line_of(loop))
    branchy = [x for x in walk(loop["body"]) if x.get("k") in ("if", "match", "continue", "break", "ret")]
    ctx.check(rule, "%s:every_item" % who, not branchy, "no item is skipped",
              "the accumulation loop has conditional control flow: some windows may not be counted",
              line_of(branchy[0]) if branchy else None)
    normaliser(ctx, rule, fv, who, norm_term, tv, bv)
    res = fv.term(fv.body.get("expr")) if fv.body.get("expr") else ("none",)
    hosted = fv.path in getattr(ctx.prog, "absorbed_into", {}).values()
    if hosted:
        # the accumulation now lives inside its former caller: the vector is consumed there (judged by that rule)
        ctx.ok(rule, "%s:result" % who, "accumulated in place inside %s" % fv.path, line_of(fv.body))
    else:
        ctx.check(rule, "%s:result" % who, res == bv, "the bucket is returned",
                  "returns `%s`, not the accumulated vector" % show(res), line_of(fv.body))
    return bv


def _drop_total_positive(gs, tv):
    """Guards of the normalisation without the redundant conjuncts `total > 0` / `total != 0` / `total >= 1`: the
    accumulation rules (one `bucket[..] += 1.0` and one `total += 1.0` per item, no item skipped) make the bucket all
    zero exactly when the total is zero, and 0.0 / max(1.0, 0.0) is 0.0 — skipping the division then changes no bit."""
    redundant = (mk_bin("<", L(0.0), tv), mk_bin("!=", tv, L(0.0)), mk_bin("<=", L(1.0), tv))
    out = []
    for g, pol in gs:
        if not pol:
            out.append((g, pol))
            continue
        todo, keep = [g], []
        while todo:
            t = todo.pop()
            if t[0] == "bin" and t[1] == "&&":
                todo += [t[2], t[3]]
            elif t not in redundant:
                keep.append(t)
        if len(keep) == 1:
            out.append((keep[0], True))
        elif keep:
            out.append((g, True))
    return out


def normaliser(ctx, rule, fv, who, norm_term, tv, bv):
    """every `/=` in fv is guarded by norm_term and divides by max(1.0, total)"""
    divs = [x for x in fv.nodes if x.get("k") == "assignop" and x["op"] == "/="]
    other_div = [x for x in fv.nodes if x.get("k") == "bin" and x["op"] == "/" and x.get("ty") == "f64"
                 and contains(fv.term(x), lambda s: s == tv)]
    if not divs and not other_div:
        # the normalisation may live in a small helper `f(&mut bucket, total)`: analyse it with the arguments bound
        for c, hv in helper_views(ctx, fv):
            args = [fv.term(a) for a in call_args(c)]
            if bv in args and tv in args:
                hb, ht = ("param", args.index(bv)), ("param", args.index(tv))
                hdivs = [x for x in hv.nodes if x.get("k") == "assignop" and x["op"] == "/="]
                if len(hdivs) != 1:
                    continue
                d = hdivs[0]
                rt = hv.term(d["r"])
                ctx.check(rule, "%s:divisor" % who, rt == mk_bin("max", L(1.0), ht), "divisor = max(1.0, total) (in helper %s)" % hv.path,
                          "helper %s divides by `%s`; a record without valid windows must divide by max(1.0, total)"
                          % (hv.path, show(rt)), line_of(d))
                gs = [(fv.term(g), pol) for g, pol in fv.guards(c)]
                ctx.check(rule, "%s:norm_guard" % who, (norm_term, True) in gs and len(gs) == 1 and not hv.guards(d),
                          "normalisation only under %s" % show(norm_term),
                          "normalisation helper is called under %s, expected exactly `%s`"
                          % ([("" if p else "!") + show(g) for g, p in gs], show(norm_term)), line_of(c))
                fe = hv.enclosing(d, ("closure",))
                host = hv.parent.get(id(fe)) if fe is not None else hv.enclosing(d, ("for",))
                ok_all = False
                if host is not None and host.get("k") == "mcall" and cname(host).endswith("Iterator::for_each"):
                    r2 = hv.term(host["recv"])
                    ok_all = r2[0] == "call" and r2[1].endswith("iter_mut") and r2[2] == hb
                elif host is not None and host.get("k") == "for":
                    it = hv.term(host["iter"])
                    ok_all = (it[0] == "call" and it[1].split("::")[-1] in ("iter_mut", "into_iter") and it[2] == hb) or it == hb
                ctx.check(rule, "%s:norm_all" % who, ok_all, "every element of the bucket is divided",
                          "the helper's division does not run over every element of the bucket", line_of(d))
                return
    if len(divs) != 1 or other_div:
        ctx.fail(rule, "%s:normalise" % who, "expected exactly one in-place division of the vector (found %d, "
                 "plus %d other divisions by the total)" % (len(divs), len(other_div)), fv.fn["sp"])
        return
    d = divs[0]
    rt = fv.term(d["r"])
    ok_div = rt == mk_bin("max", L(1.0), tv)
    ctx.check(rule, "%s:divisor" % who, ok_div, "divisor = max(1.0, total)",
              "divisor is `%s`; a record without valid windows (total = 0) must divide by max(1.0, total)"
              % show(rt), line_of(d))
    gs = _drop_total_positive([(fv.term(c), pol) for c, pol in fv.guards(d)], tv)
    ctx.check(rule, "%s:norm_guard" % who, (norm_term, True) in gs and len(gs) == 1,
              "normalisation only under %s" % show(norm_term),
              "normalisation is guarded by %s, expected exactly `%s`"
              % ([("" if p else "!") + show(g) for g, p in gs], show(norm_term)), line_of(d))
    # applied to every element of the bucket
    fe = fv.enclosing(d, ("closure",))
    host = fv.parent.get(id(fe)) if fe is not None else fv.enclosing(d, ("for",))
    ok_all = False
    if host is not None and host.get("k") == "mcall" and cname(host).endswith("Iterator::for_each"):
        rt2 = fv.term(host["recv"])
        ok_all = rt2[0] == "call" and rt2[1].endswith("iter_mut") and rt2[2] == bv
    elif host is not None and host.get("k") == "for":
        it = fv.term(host["iter"])
        ok_all = (it[0] == "call" and it[1].split("::")[-1] in ("iter_mut", "into_iter") and it[2] == bv) or it == bv
    ctx.check(rule, "%s:norm_all" % who, ok_all, "every element of the bucket is divided",
              "the division does not run over bucket.iter_mut()", line_of(d))


# --------------------------------------------------------------------------- number / row formatting

def formats_in(fv, root=None):
    """[(node, decoded format term)] for every format!() expansion under root"""
    out = []
    for n in (walk(root) if root is not None else fv.nodes):
        if n.get("k") == "call" and cname(n) in ("std::fmt::format", "alloc::fmt::format"):
            ft = decode_arguments(fv, n)
            if ft is not None:
                out.append((n, ft))
    # a format whose text only ever becomes the leading part of another format of this function (a hoisted path
    # prefix: `let prefix = format!("{}/part_{}_chunk_", ..); format!("{}{}", prefix, chunk)`) is not a template of its own
    def spliced_prefix(a, b):
        return a is not b and len(a[1]) < len(b[1]) and b[1][:len(a[1])] == a[1] and b[2][:len(a[2])] == a[2]
    return [(n, ft) for n, ft in out if not any(spliced_prefix(ft, other) for _, other in out)]


def number_format_rule(ctx, rule, fv, who, root, norm_term, expect_norm_only=False):
    """value formatting: under norm -> 6 decimals (NUMBER_SIZE-2), otherwise plain display"""
    fmts = [(n, ft, fv) for n, ft in formats_in(fv, root)
            if len(ft[1]) == 1 and ft[1][0][0] == "arg"]
    # `x.to_string()` on a float is `format!("{}", x)`
    for n in (walk(root) if root is not None else fv.nodes):
        if n.get("k") == "mcall" and cname(n) == "std::string::ToString::to_string" and n["recv"].get("ty", "").lstrip("&") in ("f64", "f32"):
            fmts.append((n, ("format", (("arg", 0, "display", None, None, None),), (fv.term(n["recv"]),)), fv))
    if not fmts and ctx is not None:
        for c, hv in helper_views(ctx, fv):
            if root is not None and not any(x is c for x in walk(root)):
                continue
            got = [(n, ft, hv) for n, ft in formats_in(hv) if len(ft[1]) == 1 and ft[1][0][0] == "arg"]
            # one helper serving k call sites counts k times (the sites were duplicated code before)
            calls = [x for x in fv.nodes if x.get("k") in ("call", "mcall") and (rname(x) == hv.path or cname(x) == hv.path)]
            fmts.extend(got * max(1, len(calls)))
    n_ok = 0
    for n, ft, vv in fmts:
        piece = ft[1][0]
        prec = piece[3]
        gs = [(vv.term(c), pol) for c, pol in vv.guards(n)]
        under_norm = (norm_term, True) in gs
        under_raw = (norm_term, False) in gs
        if expect_norm_only:
            under_norm = True
        pv = None
        if prec is not None:
            pv = prec[1] if prec[0] == "lit" else (prec[1][1] if prec[1][0] == "lit" else None)
        key = "%s:value_format@%s" % (who, "norm" if under_norm else ("raw" if under_raw else "unguarded"))
        if under_norm:
            ctx.check(rule, key, piece[2] == "display" and pv == 6,
                      "normalised values printed with 6 decimals",
                      "normalised value format is `%s` with precision %s; the property promises 6 decimals "
                      "(NUMBER_SIZE - 2)" % (fmt_template(ft), show(prec[1]) if prec and prec[0] == "arg" else pv),
                      line_of(n))
        elif under_raw:
            ctx.check(rule, key, piece[2] == "display" and prec is None and piece[4] is None,
                      "counts printed with plain Display", "count format is `%s`, expected `{}`" % fmt_template(ft),
                      line_of(n))
        else:
            ctx.fail(rule, key, "value format `%s` is not selected by the normalisation flag" % fmt_template(ft),
                     line_of(n))
        n_ok += 1
    return n_ok


# --------------------------------------------------------------------------- reader discipline (C05/C06/C07/C10)

SEQ_NEXT = "<ktio::seq::Sequences as std::iter::Iterator>::next"


def is_rayon_parallel_call(n):
    c = cname(n)
    return c.startswith("rayon::iter::") or c in ("rayon::Scope::spawn", "rayon::ThreadPool::spawn",
                                                  "rayon::spawn", "rayon::Scope::spawn_fifo",
                                                  "rayon::join", "rayon::ThreadPool::join")


def is_spawn(n):
    return cname(n) in ("rayon::Scope::spawn", "rayon::ThreadPool::spawn", "rayon::spawn",
                        "rayon::Scope::spawn_fifo", "rayon::Scope::spawn_broadcast", "std::thread::spawn",
                        "std::thread::Scope::spawn", "rayon::ScopeFifo::spawn_fifo")


FILTERISH = ("filter", "and_then", "take_if", "filter_map", "xor", "zip", "or", "or_else", "take")


def rule_locked_take(ctx, rule, fv, expect):
    """Inside spawned workers a record is taken only through a MutexGuard (record and ordinal
    are produced by one &mut call made while the reader lock is held)."""
    n_sites = 0
    for n in fv.nodes:
        is_next = n.get("k") in ("mcall", "call") and rname(n) == SEQ_NEXT
        is_for = n.get("k") == "for" and "ktio::seq::Sequences<" in n.get("iter_ty", "") \
            and not n.get("iter_ty", "").startswith("std::sync")
        if not (is_next or is_for):
            continue
        if fv.in_closure_passed_to(n, is_spawn) is None:
            continue
        n_sites += 1
        key = "%s:take@%d" % (fv.path, n_sites)
        if is_for:
            ctx.fail(rule, key, "a worker iterates the shared reader directly (no lock-held take)", line_of(n))
            continue
        recv = call_args(n)[0]
        rty = recv.get("ty", "")
        if recv.get("k") == "addr":
            rty = recv["e"].get("ty", "")
        ctx.check(rule, key, rty.startswith("std::sync::MutexGuard<"),
                  "record taken through %s" % rty[:60],
                  "worker takes a record through `%s`, not through a MutexGuard of the shared reader" % rty[:80],
                  line_of(n))
        # the Option the worker tests for end-of-input is the reader's answer itself, not a filtered / mapped version
        # of it (a record turned into None stops THAT worker while the input goes on)
        post = None
        cur = n
        for _ in range(6):
            par = fv.parent.get(id(cur))
            if par is None:
                break
            if par.get("k") in ("mcall", "call") and call_args(par) and call_args(par)[0] is cur:
                last = cname(par).split("::")[-1]
                if last in FILTERISH:
                    post = par
                    break
                if last in ("unwrap", "expect", "map", "inspect", "as_ref", "as_mut", "clone"):
                    cur = par
                    continue
                break
            if par.get("k") in ("addr", "block") and (par.get("e") is cur or par.get("expr") is cur):
                cur = par
                continue
            if par.get("k") == "let" and par.get("init") is cur and par.get("pat", {}).get("k") == "pbind":
                # bound to a local first: look at what is done with that local
                lid_ = par["pat"]["id"]
                for u in fv.nodes:
                    if u.get("k") in ("mcall", "call") and call_args(u) and cname(u).split("::")[-1] in FILTERISH:
                        a0 = call_args(u)[0]
                        while a0.get("k") in ("addr",):
                            a0 = a0["e"]
                        if a0.get("k") == "local" and a0.get("id") == lid_:
                            post = u
                break
            break
        ctx.check(rule, key + ":unfiltered", post is None, "the taken Option is tested as the reader returned it",
                  "the reader's answer goes through `%s` before the worker tests it: a record for which that yields None looks "
                  "like the end of the input to this worker (it stops; with one worker everything after it is lost)"
                  % (cname(post) if post else ""), line_of(post) if post else None)
    if n_sites < expect:
        ctx.fail(rule, "%s:take:floor" % fv.path, "expected %d lock-held take site(s) in spawned workers of %s, "
                 "found %d" % (expect, fv.path, n_sites), fv.fn["sp"])
    return n_sites


# --------------------------------------------------------------------------- batch writers (C05/C08/C11/C12/C16)

def buffer_local(fv):
    """the pending-batch Vec: a mutable local initialised by Vec::with_capacity / Vec::new that receives push(record)"""
    for n in fv.nodes:
        if n.get("k") == "mcall" and cname(n).endswith("Vec::push") and n["recv"].get("k") == "local":
            rt = n["recv"].get("ty", "")
            if "ktio::seq::Sequence" in rt:
                return n["recv"]["id"], n["recv"]["name"]
    return None, None


def closure_of_local(fv, lid):
    b = fv.binds.get(lid)
    if b and b["val"][0] == "node" and b["val"][1] is not None and b["val"][1].get("k") == "closure":
        return b["val"][1]
    return None


def flush_sites(fv, buf):
    """calls that write the batch held in `buf` to the sink"""
    out = []
    for n in fv.nodes:
        if n.get("k") == "call" and n["f"].get("k") == "local":
            clo = closure_of_local(fv, n["f"]["id"])
            if clo is not None and any(cname(x).endswith("Write::write_all") for x in walk(clo)
                                       if x.get("k") == "mcall"):
                if any(fv.term(a) == buf for a in n.get("args", [])):
                    out.append(n)
        elif n.get("k") == "mcall" and cname(n).endswith("Write::write_all"):
            # inline flush: data depends on the buffer, and not inside a helper closure bound to a local
            enc = fv.enclosing(n, ("closure",))
            if enc is not None:
                par = fv.parent.get(id(enc))
                if par is not None and par.get("k") == "let":
                    continue
            data = fv.term(n["args"][0]) if n.get("args") else ("none",)
            if contains(data, lambda s: s == buf):
                out.append(n)
    return out


NONEMPTY_OK = "non-emptiness of the buffer (`!buffer.is_empty()`, `buffer.len() > 0`, `buffer.len() != 0`) or no condition"


def is_nonempty_test(t, pol, buf):
    """cond t with polarity pol states that buf is non-empty"""
    if t[0] == "un" and t[1] == "!" and pol:
        return t[2][0] == "call" and t[2][1].endswith("::is_empty") and t[2][2] == buf
    if t[0] == "call" and t[1].endswith("::is_empty") and t[2] == buf:
        return not pol
    if t[0] == "bin" and pol:
        ln = lambda x: is_len_of(x, buf)
        if t[1] == "<" and t[2] == L(0) and ln(t[3]):
            return True
        if t[1] == "!=" and ((t[2] == L(0) and ln(t[3])) or (t[3] == L(0) and ln(t[2]))):
            return True
        if t[1] == "<=" and t[2] == L(1) and ln(t[3]):
            return True
    return False


BATCH_ORDER_SAFE = {"push", "clear", "par_iter", "iter", "len", "is_empty", "as_slice", "capacity", "reserve", "shrink_to_fit",
                    "into_par_iter", "into_iter", "par_chunks", "chunks", "first", "last", "get", "deref", "as_ref", "borrow",
                    "reserve_exact", "truncate", "drain", "pop", "remove", "swap_remove"}
# (truncate/drain/pop/remove/swap_remove are judged by the flush-before-clear path rule below, not here)


def rule_flush_pairing(ctx, rule, fv, who):
    """A8: push -> flush before clear; tail flush guarded only by non-emptiness of the buffer."""
    lid, name = buffer_local(fv)
    if lid is None:
        ctx.fail(rule, "%s:buffer" % who, "pending-batch buffer (Vec<Sequence> receiving push) not found", fv.fn["sp"])
        return
    buf = ("local", name, lid)
    loop = None
    for n in fv.nodes:
        if n.get("k") == "for" and "ktio::seq::Sequences<" in n.get("iter_ty", ""):
            loop = n
    if loop is None:
        ctx.fail(rule, "%s:loop" % who, "sequential record loop not found", fv.fn["sp"])
        return
    # the batch keeps arrival order: nothing reorders or removes elements between push and the ordered write
    bad_use = None
    n_use = 0
    for n in fv.nodes:
        if n.get("k") == "mcall":
            r = n["recv"]
            while r.get("k") in ("addr", "un") and r.get("e") is not None:
                r = r["e"]
            if r.get("k") == "local" and r.get("id") == lid:
                n_use += 1
                if cname(n).split("::")[-1] not in BATCH_ORDER_SAFE:
                    bad_use = bad_use or n
        elif n.get("k") == "addr" and n.get("mut") and n["e"].get("k") == "local" and n["e"].get("id") == lid:
            par = fv.parent.get(id(n))
            if par is not None and par.get("k") in ("call",) or (par is not None and par.get("k") == "mcall" and par.get("recv") is not n):
                bad_use = bad_use or n
    ctx.check(rule, "%s:batch_order" % who, bad_use is None and n_use >= 2,
              "the %d uses of the batch buffer are order-preserving (%s)" % (n_use, ", ".join(sorted(BATCH_ORDER_SAFE)[:6]) + ", …"),
              "the pending batch is touched by `%s`, which can reorder or drop records between arrival and the ordered "
              "write: output rows would no longer be in input order (or attributed to the wrong record)"
              % (cname(bad_use) if bad_use is not None and bad_use.get("k") == "mcall" else "a `&mut` hand-off"),
              line_of(bad_use) if bad_use is not None else None)
    flushes = flush_sites(fv, buf)
    in_loop = [f for f in flushes if any(a is loop for a in fv.ancestors(f))]
    tail = [f for f in flushes if f not in in_loop]
    fl_ids = set(id(f) for f in flushes)

    def want(n):
        if id(n) in fl_ids:
            return True
        if n.get("k") == "mcall" and n["recv"].get("k") == "local" and n["recv"]["id"] == lid \
                and cname(n).split("::")[-1] in ("push", "clear", "truncate", "drain", "pop", "remove", "swap_remove"):
            return True
        return False
    try:
        paths = enum_paths(loop["body"], want)
    except TooManyPaths:
        ctx.fail(rule, "%s:paths" % who, "too many paths", line_of(loop))
        return
    bad_clear = bad_push = None
    for ev, ex in paths:
        seen_push = seen_flush = False
        for e in ev:
            if e[0] != "ev":
                continue
            n = e[1]
            if id(n) in fl_ids:
                seen_flush = True
                if not seen_push:
                    bad_push = n
            elif cname(n).endswith("::push"):
                seen_push = True
                seen_flush = False
            else:  # clear & friends
                if not seen_flush:
                    bad_clear = n
        if not seen_push and ex[0] in ("fall", "continue"):
            bad_push = bad_push or loop
    ctx.check(rule, "%s:record_pushed" % who, bad_push is None and len(paths) >= 1,
              "every record is pushed before any flush on all %d paths of the loop body" % len(paths),
              "a path of the record loop does not push the record into the batch (or flushes before pushing)",
              line_of(bad_push) if bad_push else None)
    ctx.check(rule, "%s:flush_before_clear" % who, bad_clear is None and len(in_loop) >= 1,
              "the batch is written before it is cleared (%d in-loop flush site)" % len(in_loop),
              "the pending batch is cleared without having been written first" if bad_clear is not None else
              "no in-loop flush of the batch found", line_of(bad_clear) if bad_clear else line_of(loop))
    # tail flush
    if not tail:
        ctx.fail(rule, "%s:tail_flush" % who, "no flush of the pending batch after the record loop: the last "
                 "batch would be dropped", line_of(loop))
        return
    ok_tail = None
    for f in tail:
        gs = [(fv.term(c), pol) for c, pol in fv.guards(f)]
        # only guards established after the loop matter: those not shared with the loop
        lg = [(fv.term(c), pol) for c, pol in fv.guards(loop)]
        own = [g for g in gs if g not in lg]
        if all(is_nonempty_test(t, pol, buf) for t, pol in own):
            ok_tail = f
    f0 = tail[0]
    own0 = [g for g in [(fv.term(c), pol) for c, pol in fv.guards(f0)]
            if g not in [(fv.term(c), pol) for c, pol in fv.guards(loop)]]
    ctx.check(rule, "%s:tail_flush" % who, ok_tail is not None,
              "tail flush runs whenever the buffer is non-empty",
              "the flush after the loop is conditioned on %s; it must depend only on %s — records that add "
              "nothing to that condition (e.g. records with no bases) are silently dropped"
              % ([("" if p else "!") + show(t) for t, p in own0], NONEMPTY_OK), line_of(f0))


def rule_sink_sequential(ctx, rule, fv, who):
    """C05.W: every write to the output sink happens outside closures handed to rayon."""
    ws = [n for n in fv.nodes if n.get("k") == "mcall" and cname(n).endswith("Write::write_all")]
    bad = [n for n in ws if fv.in_closure_passed_to(n, is_rayon_parallel_call) is not None]
    ctx.check(rule, "%s:sink_sequential" % who, ws and not bad,
              "%d write(s) to the sink, all on the sequential path" % len(ws),
              "the output sink is written from inside a closure run by rayon workers: row order would depend "
              "on scheduling" if bad else "no write to the sink found",
              line_of(bad[0]) if bad else fv.fn["sp"])
    # the bytes written by a flush are THAT batch's text: a string/vector declared outside the flushing closure (or
    # outside the record loop) that only ever grows would write the earlier batches again
    stale = None
    for w in ws:
        d = w["args"][0] if w.get("args") else None
        while isinstance(d, dict) and (d.get("k") == "addr" or (d.get("k") in ("mcall", "call") and cname(d).split("::")[-1] in
                                       ("as_bytes", "as_str", "as_slice", "deref", "as_ref", "borrow"))):
            d = d["e"] if d.get("k") == "addr" else call_args(d)[0]
        if not (isinstance(d, dict) and d.get("k") == "local"):
            continue
        b = fv.binds.get(d["id"])
        if b is None or not b.get("mut"):
            continue                      # an immutable binding is built where it stands
        wc = fv.enclosing(w, ("closure",))
        decl = next((x for x in fv.nodes if x.get("k") == "let" and x.get("pat", {}).get("k") == "pbind"
                     and x["pat"].get("id") == d["id"]), None)
        dc = fv.enclosing(decl, ("closure",)) if decl is not None else None
        wl = fv.enclosing(w, ("for", "while", "loop"))
        dl = fv.enclosing(decl, ("for", "while", "loop")) if decl is not None else None
        outside = (wc is not None and dc is not wc) or (wc is None and wl is not None and dl is not wl)
        if not outside:
            continue
        scope = wc if wc is not None else wl
        cleared = any(x.get("k") == "mcall" and cname(x).split("::")[-1] in ("clear", "truncate", "drain") and
                      _is_local(x.get("recv"), d["id"]) for x in walk(scope)) or any(
            x.get("k") == "assign" and _is_local(x.get("l"), d["id"]) for x in walk(scope)) or any(
            x.get("k") == "call" and cname(x).split("::")[-1] in ("take", "replace") and x.get("args") and
            _is_local(x["args"][0], d["id"]) for x in walk(scope))
        if not cleared:
            stale = stale or w
    ctx.check(rule, "%s:batch_text_fresh" % who, stale is None, "every flush writes text built for that batch",
              "a flush writes a buffer that is declared outside the flush and never emptied: every flush after the first "
              "writes the rows of the earlier batches again", line_of(stale) if stale else None)


def _is_local(n, lid):
    while isinstance(n, dict) and (n.get("k") == "addr" or (n.get("k") == "un" and n.get("op") == "*")):
        n = n["e"]
    return isinstance(n, dict) and n.get("k") == "local" and n.get("id") == lid



def spawned_worker_loops(fv):
    """[(closure, loop)] for every `loop` directly inside a closure handed to a spawn call"""
    out = []
    for n in fv.nodes:
        if n.get("k") == "mcall" and is_spawn(n):
            for a in n.get("args", []):
                if a.get("k") == "closure":
                    loops = [x for x in walk(a) if x.get("k") in ("loop", "while")]
                    if loops:
                        out.append((a, loops[0]))
    return out


def rule_taken_reaches(ctx, rule, fv, who, is_target, what):
    """A8: on every path of a worker loop on which a record was taken (Some), the target event
    (row write / k-mer loop / run loop) is reached before the iteration ends; a worker leaves the
    loop only before taking or when the reader returned None."""
    wl = spawned_worker_loops(fv)
    if not wl:
        ctx.fail(rule, "%s:worker_loop" % who, "spawned worker loop not found", fv.fn["sp"])
        return
    clo, loop = wl[0]

    def want(n):
        if n.get("k") in ("mcall", "call") and rname(n) == SEQ_NEXT:
            return True
        return is_target(n)
    try:
        paths = enum_paths(loop["body"], want)
    except TooManyPaths:
        ctx.fail(rule, "%s:paths" % who, "too many paths", line_of(loop))
        return
    lost = leave = None
    n_take = 0
    for ev, ex in paths:
        took = any(e[0] == "ev" and e[1].get("k") in ("mcall", "call") and rname(e[1]) == SEQ_NEXT for e in ev)
        some = any(e[0] == "cond" and e[1].get("k") == "letexpr" and e[2] for e in ev) or \
            any(e[0] == "arm" and "Some" in str(e[1]["arms"][e[2]]["pat"].get("path", "")) for e in ev)
        none = any(e[0] == "cond" and e[1].get("k") == "letexpr" and not e[2] for e in ev) or \
            any(e[0] == "arm" and "None" in str(e[1]["arms"][e[2]]["pat"].get("path", "")) for e in ev)
        reached = any((e[0] == "ev" and is_target(e[1]) and not (e[1].get("k") in ("mcall", "call") and rname(e[1]) == SEQ_NEXT))
                      or (e[0] in ("enter", "skip") and is_target(e[1])) for e in ev)
        if took:
            n_take += 1
        if took and some and not reached:
            lost = (ev, ex)
        if took and not (some or none):
            lost = (ev, ex)
        if took and some and ex[0] not in ("fall", "continue"):
            leave = (ev, ex)
        if ex[0] == "break" and took and not none:
            leave = (ev, ex)
    where = None
    if lost:
        conds = [e for e in lost[0] if e[0] == "cond"]
        where = line_of(conds[-1][1]) if conds else line_of(loop)
    ctx.check(rule, "%s:taken_reaches_%s" % (who, what.split()[0]), lost is None and n_take >= 2,
              "on all %d paths a taken record reaches the %s" % (len(paths), what),
              "a path of the worker loop takes a record from the shared reader and ends the iteration without reaching "
              "the %s: that record produces no output (its row / k-mers / runs are lost)" % what, where)
    ctx.check(rule, "%s:worker_exits" % who, leave is None, "workers leave only before taking or on None",
              "a worker leaves its loop after taking a record that was not None", line_of(loop))



class Renamed:
    """Context wrapper: run another property's rule functions and report them under this property's
    rule ids (`rename(rule) -> new rule id or None to drop`). Used where a property's statement depends on
    a mechanism whose rules live in another module, so that each check is self-sufficient."""

    def __init__(self, ctx, rename):
        self._c = ctx
        self._r = rename
        self.prog = ctx.prog
        self.notes = ctx.notes
        self.tier = getattr(ctx, "tier", "quick")
        self.prop = getattr(ctx, "prop", "")

    def view(self, *a, **k):
        return self._c.view(*a, **k)

    def all_views(self, *a, **k):
        return self._c.all_views(*a, **k)

    def need(self, rule, path, unit=None):
        return self._c.need(self._r(rule) or rule, path, unit)

    def ok(self, rule, *a, **k):
        r = self._r(rule)
        if r:
            self._c.ok(r, *a, **k)

    def fail(self, rule, *a, **k):
        r = self._r(rule)
        if r:
            self._c.fail(r, *a, **k)

    def check(self, rule, key, cond, okd, faild, sp=None, nontrivial=True):
        r = self._r(rule)
        if r:
            return self._c.check(r, key, cond, okd, faild, sp, nontrivial)
        return cond

    def floor(self, rule, n):
        r = self._r(rule)
        if r:
            self._c.floor(r, n)


def dep(ctx, prop, tag):
    """rename rules `Cxx.Y` of a dependency to `<prop>.<tag>:Y`-style ids, e.g. C03 using C02's codec rules -> C03.dC02.S1"""
    def rn(rule):
        parts = rule.split(".", 1)
        return "%s.d%s.%s" % (prop, parts[0], parts[1] if len(parts) > 1 else "")
    return Renamed(ctx, rn)



# --------------------------------------------------------------------------- one iteration of an iterator's main loop

def is_readline_control(x):
    """`match r.read_line(&mut line) { Ok(0) | Err(_) => break, Ok(_) => {} }` (or its if-let spellings): the loop's
    end-of-input test, not a filter on lines"""
    if x.get("k") not in ("match", "if"):
        return False
    head = x.get("e") if x.get("k") == "match" else x.get("cond")
    if not any(y.get("k") == "mcall" and cname(y).split("::")[-1] == "read_line" for y in walk(head or {})):
        return False
    bodies = [a["body"] for a in x.get("arms", [])] if x.get("k") == "match" else [x.get("then"), x.get("else")]
    for b in bodies:
        if b is None:
            continue
        inner = [y for y in walk(b) if y.get("k") not in ("block", "semi", "tup", "lit")]
        if any(y.get("k") != "break" for y in inner):
            return False
    return True


def iteration_node(fv):
    """Node whose paths are the paths of ONE iteration of next()'s main loop, including the exhaustion
    decision.  `loop { if done { return None } .. }` -> the loop body;  `while !done { .. } tail` ->
    a synthetic `if !done { body } else { return tail }`.  Returns (node, loop_node) or (None, None)."""
    loop = next((n for n in fv.nodes if n.get("k") in ("loop", "while")), None)
    if loop is None:
        return None, None
    wl_if = None
    if loop.get("k") == "loop" and loop.get("from_while_let"):
        b_ = loop.get("body") or {}
        wl_if = b_.get("expr") if b_.get("k") == "block" and not b_.get("stmts") else None
        if not (isinstance(wl_if, dict) and wl_if.get("k") == "if"):
            wl_if = None
    if loop.get("k") == "loop" and wl_if is None:
        return loop["body"], loop
    # statements after the while in the enclosing block form the exhaustion exit
    blk = fv.parent.get(id(loop))
    holder = loop
    while blk is not None and blk.get("k") == "semi":
        holder = blk
        blk = fv.parent.get(id(blk))
    tail_stmts, tail_expr = [], None
    if blk is not None and blk.get("k") == "block":
        seq = blk.get("stmts", [])
        if holder in seq:
            i = seq.index(holder)
            tail_stmts = seq[i + 1:]
            tail_expr = blk.get("expr")
        elif blk.get("expr") is holder:
            tail_expr = None
    if tail_expr is not None and tail_expr.get("k") != "ret":
        tail_expr = {"k": "ret", "e": tail_expr, "sp": tail_expr.get("sp", loop.get("sp")), "ty": "!"}
    if wl_if is not None:      # `while let P = e { body } tail`: the same, with the pattern test as the loop condition
        return {"k": "if", "cond": wl_if["cond"], "then": wl_if["then"], "sp": loop.get("sp"),
                "else": {"k": "block", "stmts": list(tail_stmts), "expr": tail_expr, "sp": loop.get("sp")}}, loop
    synth = {"k": "if", "cond": loop["cond"], "then": loop["body"], "sp": loop.get("sp"),
             "else": {"k": "block", "stmts": list(tail_stmts), "expr": tail_expr, "sp": loop.get("sp")}}
    return synth, loop


def exhaustion_verdict(t, pol, pos_t=None, seq_t=None):
    """For a condition comparing pos with seq.len(): True if (t, pol) means 'input exhausted',
    False if it means 'a byte is available', None if t is not such a test."""
    pos_t = pos_t or SF("pos")
    seq_t = seq_t or SF("seq")
    if t[0] != "bin" or t[1] not in ("==", "!=", "<", "<="):
        return None
    a, b = t[2], t[3]
    if a == pos_t and is_len_of(b, seq_t):
        side = "pos_len"
    elif b == pos_t and is_len_of(a, seq_t):
        side = "len_pos"
    else:
        return None
    if t[1] == "==":
        return pol
    if t[1] == "!=":
        return not pol
    if t[1] == "<":      # pos < len  -> available ; len < pos -> exhausted (never)
        return (not pol) if side == "pos_len" else pol
    if t[1] == "<=":     # len <= pos -> exhausted ; pos <= len -> nothing known
        return pol if side == "len_pos" else None
    return None



def zero_vec_len(t, zero=None):
    """N when t allocates N copies of `zero` (default 0.0): vec![z; N] or repeat(z).take(N).collect(); else None"""
    zero = L(0.0) if zero is None else zero
    if t[0] == "call" and t[1].endswith("from_elem") and len(t) == 4 and (zero is True or t[2] == zero):
        return t[3]
    if t[0] == "call" and t[1].endswith("Iterator::collect") and len(t) == 3:
        a = t[2]
        if a[0] == "call" and a[1].endswith("Iterator::take") and len(a) == 4:
            r = a[2]
            if r[0] == "call" and r[1].endswith("::repeat") and len(r) == 3 and (zero is True or r[2] == zero):
                return a[3]
    if t[0] == "call" and t[1].endswith("::repeat_n") and len(t) == 4 and (zero is True or t[2] == zero):
        return t[3]
    return None



def helper_views(ctx, fv):
    """FnViews of same-crate workspace functions called directly from fv (one level): small helpers a
    maintainer may have extracted.  Returns [(call_node, view)]."""
    crate = fv.path.lstrip("<").split("::")[0]
    out = []
    seen = set()
    for n in fv.nodes:
        if n.get("k") not in ("call", "mcall"):
            continue
        for nm in (rname(n), cname(n)):
            if nm and nm.lstrip("<").split("::")[0] == crate and nm != fv.path and nm not in seen:
                v = ctx.view(nm)
                if v is not None:
                    seen.add(nm)
                    out.append((n, v))
    return out



def narrow_arith(fv, node, _seen=None):
    """arithmetic / shift nodes of a sub-64-bit integer type in the expression `node`, following
    immutable locals to their initialisers; the shift-amount operand of << and >> is exempt."""
    _seen = _seen if _seen is not None else set()
    out = []
    if node is None or id(node) in _seen:
        return out
    _seen.add(id(node))
    k = node.get("k")
    if k == "local":
        b = fv.binds.get(node["id"])
        if b is not None and b["val"][0] == "node" and b["val"][1] is not None and not b["mut"]:
            out += narrow_arith(fv, b["val"][1], _seen)
        return out
    if k == "bin":
        ty = node.get("ty", "")
        if ty in INT_TYS and int_width(ty) < 64 and node.get("op") in ("<<", ">>", "+", "-", "*"):
            out.append(node)
        out += narrow_arith(fv, node["l"], _seen)
        if node.get("op") not in ("<<", ">>"):
            out += narrow_arith(fv, node["r"], _seen)
        return out
    if k in ("cast", "un", "addr"):
        return narrow_arith(fv, node["e"], _seen)
    if k in ("call", "mcall"):
        for a in call_args(node):
            out += narrow_arith(fv, a, _seen)
        return out
    if k == "block" and node.get("expr") is not None:
        return narrow_arith(fv, node["expr"], _seen)
    return out



OPENERS = ("std::fs::File::create", "std::fs::OpenOptions::open", "ktio::mmap::mmap_file_for_writing")


def rule_output_always_created(ctx, rule, fv, who):
    """A8: every path through the writer that ends normally (falls off the end or returns Ok) has
    created/truncated its output file; an early `return Ok(())` before the open leaves a stale file of an earlier
    run (or no file at all) where a fresh location would receive an (empty) result."""
    helper_opens = {}
    for c, hv in helper_views(ctx, fv):
        if any(x.get("k") in ("call", "mcall") and (cname(x) in OPENERS or rname(x) in OPENERS) for x in hv.nodes):
            helper_opens[hv.path] = True

    def is_open(n):
        if n.get("k") not in ("call", "mcall"):
            return False
        return cname(n) in OPENERS or rname(n) in OPENERS or cname(n) in helper_opens or rname(n) in helper_opens

    def want(n):
        return is_open(n) or n.get("k") == "ret"
    opens = [n for n in fv.nodes if is_open(n)]
    if not opens:
        ctx.fail(rule, "%s:output_open" % who, "no open-for-write call found in %s" % fv.path, fv.fn["sp"])
        return
    # only opens on the function's own sequential path count (not those inside worker closures)
    try:
        paths = enum_paths(fv.body, want)
    except TooManyPaths:
        ctx.fail(rule, "%s:paths" % who, "too many paths", fv.fn["sp"])
        return
    bad = None
    for ev, ex in paths:
        opened = any(e[0] == "ev" and is_open(e[1]) for e in ev)
        if ex[0] == "ret":
            t = fv.term(ex[1].get("e")) if ex[1].get("e") is not None else ("unit",)
            is_err = (t[0] == "call" and t[1].endswith("::Err")) or t[0] == "try"
            if not opened and not is_err:
                bad = ex[1]
        elif ex[0] == "fall" and not opened:
            bad = fv.body
    ctx.check(rule, "%s:output_always_created" % who, bad is None,
              "every normally-ending path of %s has created/truncated the output (%d paths)" % (who, len(paths)),
              "a path of %s ends normally without having opened its output for writing: an output left by an earlier "
              "run survives (or no file is produced) although a fresh location would receive this run's result" % who,
              line_of(bad) if bad is not None else None)



def indexed_traversal(it):
    """For the iterator term of a loop that visits every element of a sequence X in index order return
    (X, index_term, is_elem) — `for (i, &x) in X.iter().enumerate()` or `for i in 0..X.len()` (+ X[i] / X.get(i))."""
    item = ("item", it)
    if it[0] == "call" and it[1].endswith("Iterator::enumerate") and len(it) == 3:
        src = it[2]
        if src[0] == "call" and src[1].split("::")[-1] in ("iter", "into_iter") and len(src) == 3:
            src = src[2]
        idx, el = ("proj", 0, item), ("proj", 1, item)
        return src, idx, (lambda a, el=el: a == el)
    if it[0] == "struct" and it[1].endswith("ops::Range"):
        d = dict(it[2])
        end = d.get("end", ("none",))
        if d.get("start") == L(0) and end[0] == "call" and end[1].endswith("::len") and len(end) == 3:
            X = end[2]

            def is_elem(a, X=X, item=item):
                if a == ("index", X, item):
                    return True
                return contains(a, lambda s_: s_[0] == "call" and s_[1].endswith("::get") and len(s_) == 4
                                and s_[2] == X and s_[3] == item) and a[0] == "call" and a[1].endswith("unwrap")
            return X, item, is_elem
    return None, None, None



def find_rows(fv, root=None, ctx=None):
    """String values under root that are `<values>.join(<delim>)` followed by a newline, however they are assembled
    (format!("{}\\n", ..), `.. + "\\n"`, or a local extended with push('\\n')).  Returns [(node, join_term, delim_term)]."""
    out = []
    seen = set()
    cands = []
    for n in (walk(root) if root is not None else fv.nodes):
        k = n.get("k")
        if k == "call" and cname(n) in ("std::fmt::format", "alloc::fmt::format"):
            cands.append((n, fv.term(n)))
        elif k == "closure":
            body = n.get("body")
            tail = body.get("expr") if isinstance(body, dict) and body.get("k") == "block" else body
            if tail is not None:
                cands.append((tail, fv.term(tail)))
        elif k == "bin" and n.get("op") == "+" and n.get("ty", "").endswith("string::String"):
            cands.append((n, fv.term(n)))
        elif k == "let" and n.get("pat", {}).get("k") == "pbind" and "Mut)" in n["pat"].get("mode", "") \
                and (n["pat"].get("ty") or "").endswith("string::String"):
            # a String local assembled in place (`let mut line = v.join(d); line.push('\n');`)
            cands.append((n, ("local", n["pat"]["name"], n["pat"]["id"])))
    for n, t in cands:
        ps = string_pieces(fv, t)
        if len(ps) == 2 and ps[1] == ("lit", "\n") and ps[0][0] == "term":
            j = ps[0][1]
            is_header = contains(j, lambda s_: s_[0] == "call" and s_[1].endswith("::get_header"))
            if j[0] == "call" and j[1].endswith("::join") and len(j) == 4 and repr(j) not in seen and not is_header:
                seen.add(repr(j))
                out.append((n, j, j[3]))
    if not out and ctx is not None:
        for c, hv in helper_views(ctx, fv):
            if root is not None and not any(x is c for x in walk(root)):
                continue
            out.extend(find_rows(hv))
    return out



def _zero_trip_exit(fv, ret):
    """`if n == 0 { return V; }` as a top-level statement of a function whose only loop is `for _ in 0..n` and whose
    tail is an accumulator initialised to the literal V and assigned only inside that loop: with n == 0 the loop
    runs zero times and the tail yields V as well — the exit is redundant, not another result."""
    top = fv.body.get("stmts", [])
    iff = None
    for st in top:
        e = st.get("e") if st.get("k") == "semi" else st
        if isinstance(e, dict) and e.get("k") == "if" and e.get("else") is None and any(x is ret for x in walk(e["then"])):
            iff = e
    if iff is None or ret.get("e") is None:
        return False
    inner = [x for x in walk(iff["then"]) if x.get("k") in ("call", "mcall", "assign", "assignop", "if", "match", "for", "while", "loop")]
    if inner:
        return False
    cond, val = fv.term(iff["cond"]), fv.term(ret["e"])
    if val[0] != "lit" or cond[0] != "bin" or cond[1] != "==" or L(0) not in cond[2:]:
        return False
    n_t = cond[3] if cond[2] == L(0) else cond[2]
    loops = [l for l in fv.nodes if l.get("k") in ("for", "while", "loop")]
    if len(loops) != 1 or loops[0].get("k") != "for":
        return False
    it = fv.term(loops[0]["iter"])
    if it[0] != "struct" or not it[1].endswith("ops::Range"):
        return False
    d = dict(it[2])
    end = d.get("end", ("none",))
    while end[0] == "cast" and isinstance(end[-1], tuple):
        end = end[-1]
    if d.get("start") != L(0) or end != n_t:
        return False
    tail = fv.body.get("expr")
    if tail is None or tail.get("k") != "local":
        return False
    b = fv.binds.get(tail.get("id"))
    if not b or b["val"][0] != "node" or fv.term(b["val"][1]) != val:
        return False
    body_nodes = {id(x) for x in walk(loops[0]["body"])}
    for a in fv.nodes:
        if a.get("k") in ("assign", "assignop") and a["l"].get("k") == "local" and a["l"].get("id") == tail.get("id") \
                and id(a) not in body_nodes:
            return False
    return True


def rule_pure_function(ctx, rule, fv, who):
    """The function's result is a function of its arguments alone: it reads no static / global state (a cache keyed
    on part of the arguments answers a later call with different arguments from the earlier one) and has no early
    exit that bypasses the computation the other rules judge (every path ends in the tail expression)."""
    import re as _re
    statics = []
    for n in fv.nodes:
        if n.get("k") == "def" and str(n.get("dk", "")).startswith("Static") and not n.get("mac"):
            c = ctx.prog.consts.get(norm_path(n.get("path", "")))
            ty = (c or {}).get("ty", "") or n.get("ty", "")
            # an immutable table (`static T: [u8; 256]`) is a constant; state is what can change between calls
            if c is None or _re.search(r"OnceLock|OnceCell|Lazy|Mutex|RwLock|Atomic|Cell<|LocalKey|static mut", ty) \
                    or "mutability: Mut" in str(n.get("dk", "")):
                statics.append(n)
    ctx.check(rule, "%s:no_global_state" % who, not statics, "reads no static item",
              "`%s` reads the static `%s`: its result can depend on earlier calls (e.g. a memo table keyed on fewer "
              "arguments than the result depends on)" % (who, norm_path(statics[0].get("path", "")) if statics else ""),
              line_of(statics[0]) if statics else None)
    rets = [n for n in fv.nodes if n.get("k") == "ret" and fv.enclosing(n, ("closure",)) is None]
    rets = [n for n in rets if not _zero_trip_exit(fv, n)]
    ctx.check(rule, "%s:single_exit" % who, not rets, "every path ends in the tail expression",
              "`%s` has an early `return`: that exit hands out a value the decode/table rules do not judge" % who,
              line_of(rets[0]) if rets else None)



def is_value_select(x):
    """an `if` / `match` that only chooses between side-effect-free values (`if let Some(v) = m.get(k) { *v } else { 0 }`)"""
    from ..control import _is_pure
    if x.get("k") == "if":
        return x.get("else") is not None and _is_pure(x["then"]) and _is_pure(x["else"])
    if x.get("k") == "match":
        return all(_is_pure(a["body"]) and a.get("guard") is None for a in x.get("arms", []))
    return False



def as_format_row(fv, data):
    """the row string as a format term, however it was assembled (`format!("{}\n", j)`, `j + "\n"`, a String local
    extended with push('\n')): pieces [<one term>, <literal tail>] -> format("{}<tail>"; term)"""
    if data[0] == "format":
        return data
    ps = string_pieces(fv, data)
    if len(ps) == 2 and ps[0][0] == "term" and ps[1][0] == "lit":
        return ("format", (("arg", 0, "display", None, None, None), ("lit", ps[1][1])), (ps[0][1],))
    return data



def rule_spawn_count(ctx, rule, fv, who):
    """workers are spawned by `for _ in 0..<threads>`: the range starts at 0 and ends at the thread count itself —
    `1..threads` spawns no worker for one thread (nothing is read, the output stays empty / unwritten)"""
    n = 0
    for loop in fv.nodes:
        if loop.get("k") != "for" or loop.get("pat", {}).get("k") != "pwild":
            continue
        if not any(c.get("k") == "mcall" and is_spawn(c) for c in walk(loop["body"])):
            continue
        it = fv.term(loop["iter"])
        if not (it[0] == "struct" and it[1].endswith("ops::Range")):
            continue
        n += 1
        f = dict(it[2])
        start, end = f.get("start"), f.get("end")
        ok = start == L(0) and end is not None and not contains(end, lambda s_: s_[0] == "bin" and s_[1] in ("-", "/", ">>")) \
            and contains(end, lambda s_: (s_[0] == "field" and s_[2] == "threads") or s_[0] == "param"
                         or (s_[0] == "local" and "thread" in str(s_[1]))
                         or (s_[0] == "call" and s_[1].endswith("current_num_threads")))
        ctx.check(rule, "%s:spawn_count@%d" % (who, n), ok, "one worker per thread: for _ in 0..%s" % (show(end) if end else "?"),
                  "workers are spawned over `%s..%s`: with one thread (or few) no worker / too few workers run — records are "
                  "never taken, rows stay unwritten, counts stay empty, and the run still reports success"
                  % (show(start) if start else "?", show(end) if end else "?"), line_of(loop))
    return n



def rule_threads_default(ctx, rule, adt, new_path=None):
    """the computer's default worker count is rayon::current_num_threads() itself (>= 1): the CLI leaves the default
    in place for `-t 0`, and the spawn loops run `0..threads` -- a default of `cores - 1` is 0 on a one-CPU host"""
    new_path = new_path or adt + "::new"
    fv = ctx.view(new_path)
    if fv is None:
        return
    lit = struct_literal(fv, adt)
    t = struct_fields(fv, lit).get("threads") if lit else None
    short = adt.split("::")[-1]
    ctx.check(rule, "%s::new:threads_default" % short, t == ("call", "rayon::current_num_threads"),
              "default worker count = rayon::current_num_threads() (>= 1)",
              "%s::new initialises `threads` with `%s`: with the default (CLI -t 0) the worker count can be 0 or differ "
              "from the pool size — no worker takes records and the outputs stay empty/unwritten"
              % (short, show(t) if t else "<missing>"), line_of(lit) if lit else fv.fn["sp"])


AUDITED_PANICS = {
    ("composition::oligo::OligoComputer::vectorise_mmap", "assert"): "the mapped path is only entered with norm (C05.S)",
    ("kmer::numeric_to_kmer", "panic"): "unreachable arm of a match on a two-bit value",
    ("<ktio::seq::Sequences as std::iter::Iterator>::count", "unimplemented"): "documented: count() is not provided",
}


def panic_audit(ctx, rule, prefixes=None):
    """explicit `panic!` / `assert!` / `unreachable!` / `unimplemented!` / `process::exit` sites in workspace code are the
    audited ones: a new precondition (`assert!(k > 1)`) turns inputs the property covers into aborts"""
    n = 0
    bad = []
    for fv in ctx.all_views(lambda f: prefixes is None or f["npath"].startswith(tuple(prefixes))):
        if fv.fn.get("mac") or fv.path.startswith(("<kmertools::", "pykmertools::", "<pybindings::")):
            continue
        for c in fv.nodes:
            if c.get("k") not in ("call", "mcall"):
                continue
            nm = cname(c)
            if not (nm.startswith(("core::panicking", "std::rt::begin_panic", "std::rt::panic", "core::panic"))
                    or "assert_failed" in nm or nm == "std::process::exit"):
                continue
            mac = (c.get("mac") or "").split(">")[-1].replace("$crate::panic::", "").replace("$crate::", "")
            kind = "assert" if "assert" in (c.get("mac") or "") else (mac or nm.split("::")[-1])
            n += 1
            if (fv.path, kind) not in AUDITED_PANICS:
                bad.append((fv.path, kind, c))
    for fp, kind, c in bad:
        ctx.fail(rule, "%s:explicit_panic:%s" % (fp, kind),
                 "`%s!` in %s is not one of the audited abort sites: it makes the function reject inputs it used to handle "
                 "(the properties quantify over every k in range, every record, every thread count)" % (kind, fp), line_of(c))
    ctx.check(rule, "explicit_panics:audited", not bad, "%d explicit abort site(s), all audited" % n,
              "%d unaudited explicit abort site(s)" % len(bad), None, nontrivial=False)
