"""Rule families shared by several properties."""
from ..core import (B, L, SF, W, FnView, cname, rname, is_call_to, call_args, children, walk, line_of,
                    show, tmatch, poly, pshow, pow2form, pow2show, linform, is_none, some_of, is_len_of, NotPoly, enum_paths,
                    TooManyPaths, diverges, subterms, contains, mk_bin, fmt_template, decode_format,
                    decode_arguments)
from ..facts import norm_path

# --------------------------------------------------------------------------- spec tables

def nt4_spec():
    """Property C01: A a->0, C c->1, G g->2, T t U u->3, every other byte (4..=255) -> 4."""
    t = {b: 4 for b in range(4, 256)}
    for ch, v in (("A", 0), ("C", 1), ("G", 2), ("T", 3), ("U", 3)):
        t[ord(ch)] = v
        t[ord(ch.lower())] = v
    return t


def rule_nt4_table(ctx, rule, const_path):
    c = ctx.prog.consts.get(const_path)
    if c is None or c.get("bytes") is None:
        ctx.fail(rule, "%s:anchor" % const_path,
                 "byte classification table `%s` not found as a compiler-evaluated [u8; 256] constant"
                 % const_path)
        return None
    tab = c["bytes"]
    if len(tab) != 256:
        ctx.fail(rule, "%s:len" % const_path, "table has %d entries, expected 256" % len(tab), c["sp"])
        return None
    spec = nt4_spec()
    bad = 0
    for b in range(4, 256):
        if tab[b] != spec[b]:
            bad += 1
            ctx.fail(rule, "%s:byte_%d" % (const_path, b),
                     "table[%d] (%r) = %d but the property requires %d" % (b, chr(b), tab[b], spec[b]),
                     c["sp"])
        else:
            ctx.ok(rule, "%s:byte_%d" % (const_path, b), "table[%d]=%d" % (b, tab[b]), c["sp"])
    return tab


# --------------------------------------------------------------------------- helpers

def self_field_writes(fv, field, root=None):
    """[(node, new_value_term)] for every `self.<field> = e` / `self.<field> op= e`."""
    out = []
    for n in (walk(root) if root is not None else fv.nodes):
        if n.get("k") in ("assign", "assignop"):
            lt = fv.term(n["l"])
            if lt == SF(field):
                if n["k"] == "assign":
                    out.append((n, fv.term(n["r"])))
                else:
                    op = n["op"].rstrip("=")
                    out.append((n, mk_bin(op, lt, fv.term(n["r"]))))
    return out


def local_writes(fv, lid, root=None):
    out = []
    for n in (walk(root) if root is not None else fv.nodes):
        if n.get("k") in ("assign", "assignop") and n["l"].get("k") == "local" and n["l"]["id"] == lid:
            if n["k"] == "assign":
                out.append((n, fv.term(n["r"])))
            else:
                out.append((n, mk_bin(n["op"].rstrip("="), fv.term(n["l"]), fv.term(n["r"]))))
    return out


def struct_literal(fv, adt):
    for n in fv.nodes:
        if n.get("k") == "struct" and norm_path(n.get("adt") or n.get("path", "")) == adt:
            return n
    return None


def struct_fields(fv, lit):
    return {f["name"]: fv.term(f["e"]) for f in lit.get("fields", [])}


def is_param(fv, t, name):
    """Is term t the function parameter called `name`?"""
    if t[0] != "param":
        return False
    ps = fv.fn.get("params", [])
    return t[1] < len(ps) and ps[t[1]].get("name") == name


def param_index(fv, name):
    for i, p in enumerate(fv.fn.get("params", [])):
        if p.get("name") == name:
            return i
    return None


def consts_of(ctx):
    return ctx.prog.consts


def const_scalar(ctx, t):
    if t[0] == "const":
        c = ctx.prog.consts.get(t[1])
        if c is not None:
            return c.get("scalar")
    if t[0] == "lit" and isinstance(t[1], int):
        return t[1]
    return None


# --------------------------------------------------------------------------- register geometry

def rule_geometry(ctx, rule, fv_new, adt, mask_f, shift_f, size_param, zero_fields, extra=None):
    """struct literal in `new`: mask == 2^(2K)-1, shift == 2K-2 (A3 normal forms),
    listed fields start at 0."""
    lit = struct_literal(fv_new, adt)
    if lit is None:
        ctx.fail(rule, "%s:literal" % adt, "constructor no longer builds `%s` with a struct literal" % adt,
                 fv_new.fn["sp"])
        return None
    fs = struct_fields(fv_new, lit)
    pi = param_index(fv_new, size_param)
    ksym = lambda t: t == ("param", pi)
    # mask: 2-adic normal form; shift: linear normal form
    key = "%s.%s" % (adt, mask_f)
    t = fs.get(mask_f)
    if t is None:
        ctx.fail(rule, key, "field `%s` is not initialised in the literal" % mask_f, line_of(lit))
    else:
        try:
            got = pow2form(t, ksym, ctx.prog.consts)
            ctx.check(rule, key, _p2eq(got, {(2, 0): 1, (0, 0): -1}),
                      "%s = %s ≡ 2^(2k) - 1" % (mask_f, show(t)),
                      "%s = %s normalises to %s, expected 2^(2k) - 1 (k = parameter `%s`)"
                      % (mask_f, show(t), pow2show(got), size_param), line_of(lit))
        except NotPoly as e:
            ctx.fail(rule, key, "%s = %s — %s" % (mask_f, show(t), e), line_of(lit))
    key = "%s.%s" % (adt, shift_f)
    t = fs.get(shift_f)
    if t is None:
        ctx.fail(rule, key, "field `%s` is not initialised in the literal" % shift_f, line_of(lit))
    else:
        try:
            got = linform(t, ksym, ctx.prog.consts)
            ctx.check(rule, key, got == (2, -2), "%s = %s ≡ 2k - 2" % (shift_f, show(t)),
                      "%s = %s normalises to %sk%+d, expected 2k - 2 (k = parameter `%s`)"
                      % (shift_f, show(t), got[0], got[1], size_param), line_of(lit))
        except NotPoly as e:
            ctx.fail(rule, key, "%s = %s — %s" % (shift_f, show(t), e), line_of(lit))
    for f in zero_fields:
        key = "%s.%s" % (adt, f)
        t = fs.get(f)
        ctx.check(rule, key, t == L(0), "%s starts at 0" % f,
                  "field `%s` starts at %s, expected 0" % (f, show(t) if t else "<missing>"), line_of(lit))
    for f, (pred, txt) in (extra or {}).items():
        key = "%s.%s" % (adt, f)
        t = fs.get(f)
        ctx.check(rule, key, t is not None and pred(t), "%s = %s" % (f, txt),
                  "field `%s` = %s, expected %s" % (f, show(t) if t else "<missing>", txt), line_of(lit))
    return fs


def _p2eq(a, b):
    def canon(f):
        # express every term as c*2^(a k + b) with c odd (or the linear form as a plain integer when a == 0)
        out = {}
        for (ea, eb), c in f.items():
            if ea == 0:
                # pure constants: evaluate (b must be integral)
                out[("const",)] = out.get(("const",), 0) + c * (2 ** int(eb))
                continue
            while c % 2 == 0 and c != 0:
                c //= 2
                eb += 1
            out[(ea, eb)] = out.get((ea, eb), 0) + c
        return {k: v for k, v in out.items() if v != 0}
    return canon(a) == canon(b)


# --------------------------------------------------------------------------- rolling update slots

def class_term(table_const):
    """term of `TABLE[self.seq[self.pos]]`"""
    return ("index", ("const", table_const), ("index", SF("seq"), SF("pos")))


def rule_register_updates(ctx, rule, fv, who, table_const, rev_const, f, r, l, mask, shift):
    """Forward slot f <- ((f<<2)|c)&mask ; reverse slot r <- (r>>2)|((c^REV)<<shift) ;
    length slot l += 1; all in the same (clean) branch."""
    c = class_term(table_const)
    fw = [(n, t) for n, t in self_field_writes(fv, f) if t != L(0)]
    rw = [(n, t) for n, t in self_field_writes(fv, r) if t != L(0)]
    exp_f = B("&", B("|", B("<<", SF(f), L(2)), c), SF(mask))
    exp_r = B("|", B(">>", SF(r), L(2)), B("<<", B("^", c, L(3)), SF(shift)))
    ok = True
    key = "%s.%s" % (who, f)
    if len(fw) != 1:
        ctx.fail(rule, key, "expected exactly one non-reset update of forward register `%s`, found %d"
                 % (f, len(fw)), fv.fn["sp"])
        ok = False
    else:
        n, t = fw[0]
        ok &= ctx.check(rule, key, tmatch(exp_f, t) is not None,
                        "%s <- %s" % (f, show(t)),
                        "forward update is `%s`, expected `((%s << 2) | class) & %s` with class = TABLE[seq[pos]]"
                        % (show(t), f, mask), line_of(n))
    key = "%s.%s" % (who, r)
    if len(rw) != 1:
        ctx.fail(rule, key, "expected exactly one non-reset update of reverse register `%s`, found %d"
                 % (r, len(rw)), fv.fn["sp"])
        ok = False
    else:
        n, t = rw[0]
        ok &= ctx.check(rule, key, tmatch(exp_r, t) is not None,
                        "%s <- %s" % (r, show(t)),
                        "reverse update is `%s`, expected `(%s >> 2) | ((class ^ %s) << %s)`"
                        % (show(t), r, rev_const.split("::")[-1], shift), line_of(n))
    return ok


def clean_guard_set(ctx, fv, cond, table_vals, table_const):
    """Evaluate a comparison `class <op> literal` over the table's value set.
    Returns the set of class values for which cond is true, or None if not of that shape."""
    t = fv.term(cond)
    c = class_term(table_const)
    if t[0] != "bin":
        return None
    op, a, b = t[1], t[2], t[3]
    ops = {"<": lambda x, y: x < y, "<=": lambda x, y: x <= y, "==": lambda x, y: x == y,
           "!=": lambda x, y: x != y}
    if op not in ops:
        return None
    if a == c and b[0] == "lit":
        return {v for v in table_vals if ops[op](v, b[1])}
    if b == c and a[0] == "lit":
        return {v for v in table_vals if ops[op](a[1], v)}
    return None


# --------------------------------------------------------------------------- A9 ordered pipelines

ORDERED_SOURCES = ("rayon::slice::Iter<", "rayon::vec::IntoIter<", "rayon::range::Iter<",
                   "rayon::range_inclusive::Iter<")
ORDERED_ADAPTORS = ("rayon::iter::Map<", "rayon::iter::MapWith<", "rayon::iter::Enumerate<",
                    "rayon::iter::Cloned<", "rayon::iter::Copied<", "rayon::iter::Zip<",
                    "rayon::iter::MapInit<", "rayon::iter::Inspect<")


def pipeline_verdict(recv_ty, sink_ty):
    """A9: receiver type of a rayon collect must be an indexed, order-defined chain and the sink a Vec."""
    t = recv_ty
    steps = []
    guard = 0
    while guard < 20:
        guard += 1
        for a in ORDERED_ADAPTORS:
            if t.startswith(a):
                steps.append(a[:-1])
                t = t[len(a):]
                break
        else:
            break
    src_ok = t.startswith(ORDERED_SOURCES)
    sink_ok = sink_ty.startswith("std::vec::Vec<") or sink_ty.startswith("std::result::Result<std::vec::Vec<")
    bad = None
    if not src_ok:
        bad = "source/adaptor `%s…` is not an indexed order-preserving rayon producer" % t[:60]
    elif not sink_ok:
        bad = "sink `%s` is not Vec / Result<Vec>" % sink_ty[:60]
    return bad, steps


def rule_ordered_collects(ctx, rule, fv, expect_min):
    """Every rayon `collect` in fv is order preserving; no par_bridge / for_each feeding a shared sink."""
    n_found = 0
    for n in fv.nodes:
        if n.get("k") != "mcall":
            continue
        c = cname(n)
        if c == "rayon::iter::ParallelIterator::collect":
            n_found += 1
            recv_ty = n["recv"].get("ty", "")
            sink = n.get("ty", "")
            bad, steps = pipeline_verdict(recv_ty, sink)
            key = "%s:collect@%d" % (fv.path, n_found)
            ctx.check(rule, key, bad is None,
                      "collect over %s into %s" % (recv_ty[:80], sink[:40]),
                      "parallel collect is not order-preserving: %s" % bad, line_of(n))
        elif c in ("rayon::iter::ParallelBridge::par_bridge",):
            ctx.fail(rule, "%s:par_bridge" % fv.path,
                     "par_bridge() yields items in no defined order", line_of(n))
    if n_found < expect_min:
        ctx.fail(rule, "%s:collect:floor" % fv.path,
                 "expected at least %d order-preserving parallel collect(s) in %s, found %d — the batch "
                 "is no longer produced by an indexed collect" % (expect_min, fv.path, n_found), fv.fn["sp"])
    return n_found
