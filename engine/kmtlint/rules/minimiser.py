"""Rules shared by the two minimiser state machines (kmer::minimiser and kmer::kmer_minimisers):
sentinel typestate, run closure at exhaustion, buffer-full term, reset completeness, break guards,
run coordinates, position discipline — decided on the symbolically composed paths of one loop
iteration (term composition along structured paths; nothing is executed)."""
from .common import *
from ..core import sym_paths, subst

GENS = {
    "plain": {
        "next": "<kmer::minimiser::MinimiserGenerator as std::iter::Iterator>::next",
        "new": "kmer::minimiser::MinimiserGenerator::new",
        "adt": "kmer::minimiser::MinimiserGenerator",
        "table": "kmer::minimiser::SEQ_NT4_TABLE",
        "rev": "kmer::minimiser::REV_MASK",
        "arity": 3,
        "name": "MinimiserGenerator",
    },
    "kmers": {
        "next": "<kmer::kmer_minimisers::KmerMinimiserGenerator as std::iter::Iterator>::next",
        "new": "kmer::kmer_minimisers::KmerMinimiserGenerator::new",
        "adt": "kmer::kmer_minimisers::KmerMinimiserGenerator",
        "table": "kmer::kmer_minimisers::SEQ_NT4_TABLE",
        "rev": "kmer::kmer_minimisers::REV_MASK",
        "arity": 4,
        "name": "KmerMinimiserGenerator",
    },
}

MACT = SF("m_active")
POS = SF("pos")
SEQ = SF("seq")
BUFF = SF("buff")
WSTART = SF("m_window_start")
FULL_POLY = {("self.wsize",): 1, ("self.msize",): -1, (): 1}


def is_max(t):
    return t[0] == "const" and t[1].endswith("::MAX")


def buff_of(t):
    """underlying buffer variable of a (possibly versioned) buffer term"""
    if t == BUFF:
        return ("initial", None)
    if t[0] == "ver" and t[1] == BUFF:
        return ("ver", t)
    return None


def full_test(t):
    """If t is `len(<buff or version>) == E`, return (buffer-term, E) else None"""
    if t[0] != "bin" or t[1] != "==":
        return None
    for a, b in ((t[2], t[3]), (t[3], t[2])):
        if a[0] == "call" and a[1].endswith("::len") and len(a) == 3 and buff_of(a[2]) is not None:
            return a[2], b
    return None


def is_exhaust(t):
    return exhaustion_verdict(t, True) is not None


def conjuncts(t):
    if t[0] == "bin" and t[1] == "&&":
        return conjuncts(t[2]) + conjuncts(t[3])
    return [t]


def run_open_guard(conds):
    """Does the path condition establish that a run is open (m_active holds a real value)?"""
    for t, pol, _ in conds:
        for c in (conjuncts(t) if pol else [t]):
            ft = full_test(c)
            if ft is not None and pol and buff_of(ft[0])[0] == "initial":
                return "buffer was full on entry (%s)" % show(c)
            if c[0] == "bin" and c[1] in ("!=", "==") and ((c[2] == MACT and is_max(c[3])) or (c[3] == MACT and is_max(c[2]))):
                if (c[1] == "!=" and pol) or (c[1] == "==" and not pol and len(conjuncts(t)) == 1):
                    return "m_active != u64::MAX"
    return None


def first_fill_guard(conds):
    for t, pol, _ in conds:
        if not pol:
            continue
        cs = conjuncts(t)
        if any(full_test(c) is not None for c in cs) and any(
                c[0] == "bin" and c[1] == "==" and (is_max(c[2]) or is_max(c[3])) and MACT in (c[2], c[3]) for c in cs):
            return True
    return False


def sentinel_known(conds):
    """path condition establishes m_active == MAX on entry"""
    for t, pol, _ in conds:
        if t[0] == "bin" and t[1] in ("!=", "==") and ((t[2] == MACT and is_max(t[3])) or (t[3] == MACT and is_max(t[2]))):
            if (t[1] == "==" and pol) or (t[1] == "!=" and not pol):
                return True
    return False


def classify(sp):
    if not sp.conds:
        return "?"
    t, pol, _ = sp.conds[0]
    if exhaustion_verdict(t, pol) is True:
        return "exhaustion"
    for t, pol, _ in sp.conds[1:3]:
        if t[0] == "bin" and t[1] in ("<", "<=", "==", "!=") and contains(t, lambda s: s[0] == "index" and s[1][0] == "const"):
            # class test: which side?
            return "clean" if clean_polarity(t, pol) else "ambiguous"
    return "?"


def clean_polarity(t, pol):
    """class-vs-literal comparison: does (t, pol) mean the class is in {0,1,2,3}?"""
    ops = {"<": lambda x, y: x < y, "<=": lambda x, y: x <= y, "==": lambda x, y: x == y, "!=": lambda x, y: x != y}
    a, b = t[2], t[3]
    if b[0] == "lit":
        sel = {v for v in range(5) if ops[t[1]](v, b[1])}
    elif a[0] == "lit":
        sel = {v for v in range(5) if ops[t[1]](a[1], v)}
    else:
        return False
    if not pol:
        sel = set(range(5)) - sel
    return sel == {0, 1, 2, 3}


def run(ctx, P, which):
    """P: rule prefix ('C09' / 'C18'); which: 'plain' / 'kmers'."""
    g = GENS[which]
    name = g["name"]
    fv = ctx.need(P + ".S", g["next"])
    fnew = ctx.need(P + ".G", g["new"])
    if fv is None or fnew is None:
        return None
    iter_root, loop = iteration_node(fv)
    if loop is None:
        ctx.fail(P + ".S", "%s:loop" % name, "main loop of next() not found", fv.fn["sp"])
        return None
    try:
        paths = sym_paths(fv, iter_root)
    except TooManyPaths:
        ctx.fail(P + ".S", "%s:paths" % name, "too many paths in next()", line_of(loop))
        return None
    ar = g["arity"]

    # ---------------- P: position discipline
    bad = None
    for sp in paths:
        kind = classify(sp)
        t0 = sp.conds[0][0] if sp.conds else ("none",)
        if not is_exhaust(t0):
            bad = ("first test of an iteration is `%s`, expected the exhaustion test pos == seq.len()" % show(t0), sp)
            break
        newpos = sp.state.get(POS, POS)
        if kind == "exhaustion":
            if newpos != POS:
                bad = ("pos changes on the exhaustion path", sp)
        else:
            if poly(newpos) != poly(mk_bin("+", POS, L(1))):
                bad = ("pos becomes `%s` on a path that inspected one byte (expected pos + 1)" % show(newpos), sp)
        if kind == "?":
            bad = ("cannot classify a path (no byte-class test after the exhaustion test)", sp)
    ctx.check(P + ".P", "%s:pos_discipline" % name, bad is None,
              "exhaustion test first, pos + 1 on each of the %d byte-consuming paths" % len(paths),
              bad[0] if bad else "", line_of(loop))

    # ---------------- S: sentinel never emitted
    n_emit = 0
    site_seen = {}
    for sp in paths:
        if sp.ret is None or is_none(sp.ret):
            continue
        tup = some_of(sp.ret)
        if tup is None or tup[0] != "tup" or len(tup) != ar + 1:
            ctx.fail(P + ".S", "%s:emit_shape" % name, "next() returns `%s`, expected Some(%d-tuple)" % (show(sp.ret), ar),
                     line_of(sp.exit[1]) if sp.exit[0] == "ret" else None)
            continue
        n_emit += 1
        a = tup[1]
        site = site_name(sp)
        why = None
        if a == MACT:
            why = run_open_guard(sp.conds)
            bad_txt = ("emits the entry value of `m_active` on a path whose condition does not establish that a run "
                       "is open (buffer full on entry, or m_active != u64::MAX): the no-run sentinel u64::MAX can be "
                       "emitted as if it were a minimiser")
        elif a[0] == "loopval" and a[1] == "m_active":
            why = "first fill on this path" if first_fill_guard(sp.conds) else None
            bad_txt = "emits a freshly scanned m_active without the first-fill guard"
        else:
            bad_txt = "emits `%s`, which is not the open run's minimiser" % show(a)
        key = "%s:%s" % (name, site)
        prev = site_seen.get(key)
        ok = why is not None
        if prev is None or (prev and not ok):
            site_seen[key] = ok
            if not ok:
                site_seen[key + "#txt"] = (bad_txt, sp)
    for key, ok in list(site_seen.items()):
        if key.endswith("#txt"):
            continue
        if ok:
            ctx.ok(P + ".S", key, "every emitting path through this site has a run-open guard")
        else:
            txt, sp = site_seen[key + "#txt"]
            ctx.fail(P + ".S", key, txt + " [path: %s]" % "; ".join(("" if p else "!") + show(t) for t, p, _ in sp.conds[-4:]),
                     line_of(sp.exit[1]) if sp.exit[0] == "ret" else None)
    if n_emit < 3:
        ctx.fail(P + ".S", "%s:emit:floor" % name, "fewer than 3 emitting paths found in next()", line_of(loop))

    # ---------------- R: run closure at exhaustion
    ex_paths = [sp for sp in paths if classify(sp) == "exhaustion"]
    nones = [sp for sp in ex_paths if sp.ret is not None and is_none(sp.ret)]
    flush = [sp for sp in ex_paths if sp.ret is not None and some_of(sp.ret) is not None]
    okR = bool(nones) and all(sentinel_known(sp.conds) for sp in nones)
    ctx.check(P + ".R", "%s:exhaustion_exit" % name, okR,
              "end of input returns None only when no run is open (%d None path, %d flush path)" % (len(nones), len(flush)),
              "at end of input next() returns None without testing whether a run is still open; a run opened on the "
              "last base (minimiser change or first full window at the final position) is never emitted — the last "
              "window of the sequence is lost", line_of(nones[0].exit[1]) if nones else line_of(loop))
    for sp in flush:
        tup = some_of(sp.ret)
        okf = tup[1] == MACT and tup[2] == WSTART and is_len_of(tup[3], SEQ)
        ctx.check(P + ".R", "%s:flush_value" % name, okf, "flush emits (m_active, m_window_start, seq.len())",
                  "the end-of-input flush emits `%s`, expected (m_active, m_window_start, seq.len(), ..)" % show(tup),
                  line_of(sp.exit[1]))
        after = sp.state.get(MACT, MACT)
        ctx.check(P + ".R", "%s:flush_once" % name, is_max(after), "m_active is reset to the sentinel after the flush",
                  "after the end-of-input flush m_active is `%s`: the same run would be emitted again on every call "
                  "(the iterator never ends)" % show(after), line_of(sp.exit[1]))

    # ---------------- B: one buffer-full term
    seen = set()
    nB = 0
    for sp in paths:
        for t, pol, node in sp.conds:
            for c in conjuncts(t):
                ft = full_test(c)
                if ft is None or id(node) in seen and len(conjuncts(t)) == 1:
                    continue
                if (id(node), repr(c)) in seen:
                    continue
                seen.add((id(node), repr(c)))
                seen.add(id(node))
                nB += 1
                pp = poly(ft[1], ctx.prog.consts)
                ctx.check(P + ".B", "%s:full_test@%s" % (name, nB), pp == FULL_POLY,
                          "buffer-full test against %s" % pshow(pp),
                          "a buffer-full comparison uses `%s` (= %s); every such test and the capacity must be "
                          "wsize - msize + 1" % (show(ft[1]), pshow(pp)), line_of(node))
    lit = struct_literal(fnew, g["adt"])
    if lit is not None:
        fs = struct_fields(fnew, lit)
        cap = fs.get("buff")
        wp, mp = param_index(fnew, "wsize"), param_index(fnew, "msize")
        def sym(t):
            if t == ("param", wp):
                return "self.wsize"
            if t == ("param", mp):
                return "self.msize"
            return show(t)
        okc = cap is not None and cap[0] == "call" and cap[1].endswith("with_capacity") and poly(cap[2], None, sym) == FULL_POLY
        ctx.check(P + ".B", "%s:capacity" % name, okc, "buffer capacity wsize - msize + 1",
                  "buffer is created as `%s`, expected capacity wsize - msize + 1" % (show(cap) if cap else "?"), line_of(lit))
        ctx.check(P + ".G", "%s:sentinel_init" % name, is_max(fs.get("m_active", ("none",))), "m_active starts as u64::MAX",
                  "m_active starts as `%s`, expected the no-run sentinel u64::MAX" % show(fs.get("m_active", ("none",))), line_of(lit))
        for f, pn in (("wsize", "wsize"), ("msize", "msize"), ("seq", "seq")):
            ctx.check(P + ".G", "%s:%s" % (name, f), f in fs and is_param(fnew, fs[f], pn), "%s <- parameter" % f,
                      "field %s is initialised from `%s`" % (f, show(fs.get(f, ("none",)))), line_of(lit))
    if nB < 3:
        ctx.fail(P + ".B", "%s:full_test:floor" % name, "fewer than 3 buffer-full tests found", line_of(loop))

    # ---------------- E: reset on an ambiguous byte
    amb = [sp for sp in paths if classify(sp) == "ambiguous"]
    clean = [sp for sp in paths if classify(sp) == "clean"]
    if not amb:
        ctx.fail(P + ".E", "%s:ambiguous_paths" % name, "no path for an ambiguous byte found", line_of(loop))
    want_reset = {"m_active": is_max, "m_val_l": lambda t: t == L(0), "m_val_f": lambda t: t == L(0),
                  "m_val_r": lambda t: t == L(0),
                  "m_window_start": lambda t: poly(t) == poly(mk_bin("+", POS, L(1)))}
    if which == "kmers":
        want_reset.update({"k_val_l": lambda t: t == L(0), "k_val_f": lambda t: t == L(0), "k_val_r": lambda t: t == L(0)})
    for f, pred in sorted(want_reset.items()):
        okE = bool(amb) and all(SF(f) in sp.state and pred(sp.state[SF(f)]) for sp in amb)
        got = sorted(set(show(sp.state.get(SF(f), SF(f))) for sp in amb))
        ctx.check(P + ".E", "%s:reset_%s" % (name, f), okE, "%s reset on every ambiguous path" % f,
                  "after an ambiguous byte `%s` is %s; it must be reset (registers/lengths 0, m_active sentinel, "
                  "m_window_start = pos + 1)" % (f, got), line_of(loop))
    okclr = bool(amb) and all(any(e[0] == "clear" and e[1] == BUFF for e in sp.effects) for sp in amb)
    ctx.check(P + ".E", "%s:reset_buff" % name, okclr, "window buffer cleared on every ambiguous path",
              "the m-mer buffer is not cleared on an ambiguous byte: runs would cross it", line_of(loop))
    written_clean = set()
    for sp in clean:
        written_clean |= {k[2] for k in sp.state if k[0] == "field" and k[1] == ("self",)}
    written_amb = set()
    for sp in amb:
        written_amb |= {k[2] for k in sp.state if k[0] == "field" and k[1] == ("self",)}
    missing = written_clean - written_amb - {"pos"}
    ctx.check(P + ".E", "%s:reset_complete" % name, not missing,
              "every field the clean path writes (%d) is reset on the ambiguous path" % len(written_clean),
              "fields %s are updated on clean bytes but not reset at an ambiguous byte" % sorted(missing), line_of(loop))
    # ambiguous emission: only when the buffer was full, value = entry run
    for sp in amb:
        if sp.ret is not None and some_of(sp.ret) is not None:
            tup = some_of(sp.ret)
            okA = tup[1] == MACT and tup[2] == WSTART and tup[3] == POS
            ctx.check(P + ".W", "%s:ambiguous_emit" % name, okA, "run closed at an ambiguous byte = (m_active, start, pos)",
                      "the run emitted at an ambiguous byte is `%s`, expected (m_active, m_window_start, pos) with "
                      "the entry values" % show(tup), line_of(sp.exit[1]))

    # ---------------- M: break guards
    cmp_terms = {}
    for sp in clean:
        for t, pol, node in sp.conds:
            if len(conjuncts(t)) == 1 and t[0] == "bin" and MACT in (t[2], t[3]) and not (is_max(t[2]) or is_max(t[3])):
                cmp_terms[id(node)] = (t, node)
    arrivals = [(t, n) for t, n in cmp_terms.values() if t[1] in ("<", "<=")]
    rescans = [(t, n) for t, n in cmp_terms.values() if t[1] in ("!=", "==")]
    okM1 = len(arrivals) == 1 and arrivals[0][0][1] == "<" and arrivals[0][0][3] == MACT \
        and arrivals[0][0][2][0] == "bin" and arrivals[0][0][2][1] == "min"
    ctx.check(P + ".M", "%s:arrival_break" % name, okM1,
              "a new m-mer breaks the run only if strictly smaller than m_active",
              "arrival comparison is %s; a newly arrived m-mer must break the run iff `min(f, r) < m_active` (strict: an "
              "equal value continues the run)" % [show(t) for t, _ in arrivals],
              line_of(arrivals[0][1]) if arrivals else line_of(loop))
    okM2 = len(rescans) == 1 and rescans[0][0][1] == "!=" and any(x[0] == "loopval" for x in (rescans[0][0][2], rescans[0][0][3]))
    ctx.check(P + ".M", "%s:rescan_break" % name, okM2,
              "after the tracked minimum leaves, the run breaks iff the rescanned minimum != m_active",
              "rescan comparison is %s; expected `new_min != m_active` on the rescanned value" % [show(t) for t, _ in rescans],
              line_of(rescans[0][1]) if rescans else line_of(loop))

    # ---------------- W: run coordinates at change sites
    nW = 0
    for sp in clean:
        if sp.ret is None or some_of(sp.ret) is None:
            continue
        tup = some_of(sp.ret)
        if tup[1] != MACT:
            continue
        newact = sp.state.get(MACT, MACT)
        if newact == MACT:
            # legacy end-of-sequence site: end must be seq.len()
            okw = tup[2] == WSTART and is_len_of(tup[3], SEQ)
            ctx.check(P + ".W", "%s:end_emit" % name, okw, "last run ends at seq.len()",
                      "end-of-sequence emission is `%s`" % show(tup), line_of(sp.exit[1]))
            continue
        nW += 1
        site = site_name(sp)
        okw = tup[2] == WSTART and tup[3] == POS
        ctx.check(P + ".W", "%s:%s:closed_run" % (name, site), okw, "closed run = (old m_active, old start, pos)",
                  "run closed at a minimiser change is `%s`, expected (m_active, m_window_start, pos) with entry values "
                  "(end exclusive)" % show(tup), line_of(sp.exit[1]))
        ns = sp.state.get(WSTART, WSTART)
        want = {("self.pos",): 1, ("self.wsize",): -1, (): 1}
        ctx.check(P + ".W", "%s:%s:new_start" % (name, site), poly(ns) == want, "new run starts at pos - wsize + 1",
                  "after a change the new run's start is `%s`, expected pos - wsize + 1" % show(ns), line_of(sp.exit[1]))
    if nW < 2:
        ctx.fail(P + ".W", "%s:change_sites:floor" % name, "fewer than 2 minimiser-change emission paths found", line_of(loop))
    # a run's start is fixed when the run opens: clean paths that close nothing leave it (and an open run's value) alone
    bad_st = None
    n_quiet = 0
    for sp in clean:
        if sp.ret is not None and some_of(sp.ret) is not None:
            continue
        n_quiet += 1
        ns = sp.state.get(WSTART, WSTART)
        na = sp.state.get(MACT, MACT)
        if ns != WSTART:
            bad_st = ("m_window_start becomes `%s` on a path that emits nothing: the open run would later be reported "
                      "with a start that is not its first window's" % show(ns), sp)
        elif na != MACT and not (na[0] == "loopval" and first_fill_guard(sp.conds)):
            bad_st = ("m_active becomes `%s` on a path that emits nothing and is not the first fill: the open run "
                      "changes value without being closed" % show(na), sp)
    ctx.check(P + ".W", "%s:quiet_paths" % name, bad_st is None and n_quiet >= 3,
              "the %d non-emitting clean paths leave m_window_start and an open run's m_active unchanged" % n_quiet,
              (bad_st[0] + " [path: %s]" % "; ".join(("" if p_ else "!") + show(t) for t, p_, _ in bad_st[1].conds[-4:]))
              if bad_st else "fewer than 3 non-emitting clean paths found", line_of(loop))
    buffer_rules(ctx, P, which, paths)
    return paths


def site_name(sp):
    """stable name for an emission site: derived from the kind of path, not from line numbers"""
    kind = classify(sp)
    if kind == "exhaustion":
        return "flush_at_exhaustion"
    if kind == "ambiguous":
        return "ambiguous_byte"
    conds = [(t, p) for t, p, _ in sp.conds]
    newact = sp.state.get(MACT, MACT)
    if newact[0] == "loopval" and newact[1] == "new_min" or (newact[0] == "loopval" and any(
            t[0] == "bin" and t[1] == "!=" and MACT in (t[2], t[3]) and p for t, p in conds)):
        return "rescan_change"
    if newact[0] == "bin" and newact[1] == "min":
        return "arrival_change"
    return "end_of_sequence"


# ---------------------------------------------------------------- X: window-buffer slots

def scan_loop_ok(fv, loop, acc_is_field):
    """`for j in 0..buff.len() { if *buff.get(j).unwrap() </<= acc { buff_pos = j; acc = *buff.get(j).unwrap(); } }`
    Returns (ok, why)."""
    if loop.get("k") != "for":
        return False, "a `%s` loop inside the iteration is not a buffer scan" % loop.get("k")
    paths = sym_paths(fv, loop["body"])
    view = paths[0].view if paths else fv
    X = j = is_elem = None
    for vv in (view, fv):
        X, j, is_elem = indexed_traversal(vv.term(loop["iter"]))
        if X is not None:
            break
    if X != BUFF:
        return False, "scan iterates `%s`, expected every buffered m-mer in index order (0..buff.len() or buff.iter().enumerate())" % show(fv.term(loop["iter"]))
    # temporaries bound inside the scan body (`let cand = buff[j];`) are not state
    inner_ids = set(x["pat"]["id"] for x in walk(loop["body"]) if x.get("k") == "let" and x.get("pat", {}).get("k") == "pbind")
    for sp in paths:
        for k_ in [k_ for k_ in sp.state if k_[0] == "local" and k_[2] in inner_ids]:
            del sp.state[k_]
    hit = [sp for sp in paths if sp.state]
    miss = [sp for sp in paths if not sp.state]
    if len(hit) != 1 or len(miss) != 1:
        return False, "scan body has %d updating / %d non-updating paths, expected 1 / 1" % (len(hit), len(miss))
    sp = hit[0]
    cond = sp.conds[-1] if sp.conds else None
    if cond is None or cond[0][0] != "bin" or cond[0][1] not in ("<", "<=") or not cond[1]:
        return False, "scan comparison is not `element < running minimum`"
    a, b = cond[0][2], cond[0][3]
    if not is_elem(a):
        return False, "scan compares `%s`, expected the element at the loop index" % show(a)
    st = sp.state
    accs = [k for k, v in st.items() if v == a and k != SF("buff_pos")]
    if st.get(SF("buff_pos")) != j:
        return False, "scan does not record the position of the minimum (buff_pos = j)"
    if len(accs) != 1 or accs[0] != b:
        return False, "scan does not update the running minimum it compares against (compares with %s, updates %s)" % (
            show(b), [show(x) for x in accs])
    return True, ""


def buffer_rules(ctx, P, which, paths=None):
    g = GENS[which]
    name = g["name"]
    fv = ctx.need(P + ".X", g["next"])
    if fv is None:
        return
    iter_root, loop = iteration_node(fv)
    if paths is None:
        paths = sym_paths(fv, iter_root)
    inner = [n for n in walk(loop["body"]) if n.get("k") in ("for", "while")]
    ctx.check(P + ".X", "%s:scan_loops" % name, len(inner) == 2, "two buffer scans (rescan, first fill)",
              "expected the rescan and the first-fill scan, found %d inner loops" % len(inner), line_of(loop))
    for i, l in enumerate(inner):
        ok, why = scan_loop_ok(fv, l, False)
        ctx.check(P + ".X", "%s:scan@%d" % (name, i + 1), ok, "scan %d visits every buffered m-mer, tracks value and position" % (i + 1),
                  "buffer scan %d: %s" % (i + 1, why), line_of(l))
    # rescan accumulator starts at the sentinel
    for l in inner:
        # accumulator = the variable compared in the body
        pass
    clean = [sp for sp in paths if classify(sp) == "clean"]
    bad_push = bad_pos = None
    n_full = n_fill = 0
    for sp in clean:
        effs = [e for e in sp.effects if e[1] == BUFF or (e[1][0] == "ver" and e[1][1] == BUFF)]
        names = [e[0] for e in effs]
        full = None
        for t, pol, _ in sp.conds:
            ft = full_test(t)
            if ft is not None and buff_of(ft[0])[0] == "initial" and len(conjuncts(t)) == 1:
                full = pol
        mf, mr = sp.state.get(SF("m_val_f")), sp.state.get(SF("m_val_r"))
        if full is None:
            if names and bad_push is None:
                bad_push = ("the buffer is modified before m clean bases are available", sp)
            continue
        val = mk_bin("min", mf, mr) if mf is not None and mr is not None else None
        if full:
            n_full += 1
            if names != ["pop_front", "push_back"] or effs[1][2] != val:
                bad_push = ("with a full buffer the iteration must pop_front then push_back(min(f, r)); found %s"
                            % [(e[0], show(e[2]) if len(e) > 2 else "") for e in effs], sp)
        else:
            n_fill += 1
            if names != ["push_back"] or effs[0][2] != val:
                bad_push = ("while filling, the iteration must push_back(min(f, r)) once; found %s"
                            % [(e[0], show(e[2]) if len(e) > 2 else "") for e in effs], sp)
        # position bookkeeping of the tracked minimum
        if full:
            newact = sp.state.get(MACT, MACT)
            bp = sp.state.get(SF("buff_pos"), SF("buff_pos"))
            took_rescan = any(t == mk_bin("==", SF("buff_pos"), L(0)) and pol for t, pol, _ in sp.conds)
            if took_rescan:
                if bp[0] != "loopval":
                    bad_pos = ("after the tracked minimum left the buffer, buff_pos is `%s`, expected the rescanned position" % show(bp), sp)
            elif newact[0] == "bin" and newact[1] == "min":
                want = {("len(buff)",): 1, (): -1}
                pp = poly(bp, None, lambda t: "len(buff)" if (t[0] == "call" and t[1].endswith("::len")) else show(t))
                if pp != want:
                    bad_pos = ("after a smaller m-mer arrives, buff_pos is `%s`, expected buff.len() - 1 (the new element)" % show(bp), sp)
            elif bp[0] != "loopval":     # (a later scan on the same path re-derives the position)
                if poly(bp) != poly(mk_bin("-", SF("buff_pos"), L(1))):
                    bad_pos = ("when the run continues, buff_pos must move left by one (pop_front shifts the buffer); found `%s`" % show(bp), sp)
    ctx.check(P + ".X", "%s:buffer_updates" % name, bad_push is None and n_full >= 3 and n_fill >= 1,
              "pop_front+push_back(min(f,r)) when full (%d paths), push_back when filling (%d paths)" % (n_full, n_fill),
              bad_push[0] if bad_push else "buffer update paths not found", line_of(loop))
    ctx.check(P + ".X", "%s:min_position" % name, bad_pos is None, "buff_pos follows the tracked minimum on every path",
              bad_pos[0] if bad_pos else "", line_of(loop))
    # the rescan accumulator starts at u64::MAX (so the first element always wins)
    rescan_init = [n for n in walk(loop["body"]) if n.get("k") == "let" and "Mut)" in n["pat"].get("mode", "")
                   and n["pat"].get("ty") == "u64" and n.get("init") is not None]
    okI = len(rescan_init) == 1 and is_max(fv.term(rescan_init[0]["init"]))
    ctx.check(P + ".X", "%s:rescan_init" % name, okI, "rescan starts from u64::MAX",
              "the rescan accumulator does not start at u64::MAX", line_of(rescan_init[0]) if rescan_init else line_of(loop))
