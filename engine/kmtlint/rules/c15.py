"""C15 — command-line options mean what they say and nothing more."""
from .common import *

EXPLANATION = (
    "The option tables and the option -> setter wiring of args::cli (code no test executes), read from the "
    "expanded clap derive and the typed body of cli(): (R) literal bounds of the ten ranged options "
    "against the documented table, plus the invariant that every option flowing into a k/m parameter "
    "is within 1..=31 (2k <= 62 bits) and bin options >= 1; (P) preset -> delimiter literal table and "
    "minimiser preset -> function; (F) flow table with polarity: which option reaches which "
    "constructor/setter argument under which guard, in the callee's parameter order; (U) every field of "
    "every Args struct is read in its arm; (Z) refusals (w<=m with w>0, m>=31, counts in whole-sequence "
    "CGR) print a diagnostic, return, and precede in block order every call from which an output-creating "
    "call is reachable in the call graph; (E) cli is called only from main and run_cli with the value "
    "returned by clap's parser; (X) cli calls nothing of the workspace outside a closed list. Does not "
    "compare CLI and library output bytes.")
ASSUMPTIONS = ["clap 4.5 rejects out-of-range values before cli() runs (value_parser range semantics)"]

CLI = "kmertools::args::cli"
UNIT = "kmertools-kmertools-lib"

# (Args struct, option id) -> (lo, hi inclusive or None)
RANGES = {
    ("OligoCommand", "k_size"): (3, 7), ("CGRCommand", "k_size"): (3, 7),
    ("CoverageCommand", "k_size"): (7, 31), ("CoverageCommand", "bin_size"): (5, None),
    ("CoverageCommand", "bin_count"): (5, None), ("CoverageCommand", "memory"): (6, 128),
    ("MinimiserCommand", "m_size"): (7, 28), ("MinimiserCommand", "w_size"): (0, None),
    ("CounterCommand", "k_size"): (10, 31), ("CounterCommand", "memory"): (6, 128),
}
K_LIKE = {("OligoCommand", "k_size"), ("CGRCommand", "k_size"), ("CoverageCommand", "k_size"),
          ("MinimiserCommand", "m_size"), ("CounterCommand", "k_size")}
POSITIVE = {("CoverageCommand", "bin_size"), ("CoverageCommand", "bin_count")}
PRESETS = {"Csv": ",", "Tsv": "\t", "Spc": " "}
MIN_PRESETS = {"M2s": "misc::minimisers::bin_sequences", "S2m": "misc::minimisers::seq_to_min"}

OC, OG, CG, CV, CT = ("composition::oligo::OligoComputer::", "composition::oligocgr::OligoCgrComputer::",
                      "composition::cgr::CgrComputer::", "coverage::CovComputer::", "counter::CountComputer::")
KSOME = "cmd.k_size is Some"
FLOW = {
    "Oligo": [
        (OC + "new", ["cmd.input", "cmd.output", "cmd.k_size"], []),
        (OC + "set_threads", ["cmd.threads"], ["(0 < cmd.threads)"]),
        (OC + "set_norm", ["!cmd.counts"], []),
        (OC + "set_header", ["cmd.header"], []),
        (OC + "vectorise", [], []),
    ],
    "Cgr": [
        (OG + "new", ["cmd.input", "cmd.output", "cmd.k_size.unwrap", "VECSIZE_K"], [KSOME]),
        (OG + "set_threads", ["cmd.threads"], ["(0 < cmd.threads)", KSOME]),
        (OG + "set_norm", ["!cmd.counts"], [KSOME]),
        (OG + "vectorise", [], [KSOME]),
        (CG + "new", ["cmd.input", "cmd.output", "unwrap_or(cmd.vec_size, 1)"], ["!cmd.counts", "!" + KSOME]),
        (CG + "set_threads", ["cmd.threads"], ["(0 < cmd.threads)", "!cmd.counts", "!" + KSOME]),
        (CG + "vectorise", [], ["!cmd.counts", "!" + KSOME]),
    ],
    "Cov": [
        ("ktio::fops::create_directory", ["cmd.output"], []),
        (CV + "new", ["cmd.input", "cmd.output", "cmd.k_size", "cmd.bin_size", "cmd.bin_count"], []),
        (CV + "set_threads", ["cmd.threads"], ["(0 < cmd.threads)"]),
        (CV + "set_kmer_path", ["cmd.alt_input.unwrap"], ["cmd.alt_input is Some"]),
        (CV + "set_norm", ["false"], ["cmd.counts"]),
        (CV + "set_max_memory", ["(cmd.memory as f64)"], []),
        (CV + "build_table", [], []),
        (CV + "compute_coverages", [], []),
    ],
    "Min": [
        ("misc::minimisers::bin_sequences", ["cmd.w_size", "cmd.m_size", "cmd.input", "cmd.output", "cmd.threads"], ["REFUSALS"]),
        ("misc::minimisers::seq_to_min", ["cmd.w_size", "cmd.m_size", "cmd.input", "cmd.output", "cmd.threads"], ["REFUSALS"]),
    ],
    "Ctr": [
        ("ktio::fops::create_directory", ["cmd.output"], []),
        (CT + "new", ["cmd.input", "cmd.output", "cmd.k_size"], []),
        (CT + "set_threads", ["cmd.threads"], ["(0 < cmd.threads)"]),
        (CT + "set_acgt_output", ["true"], ["cmd.acgt"]),
        (CT + "set_max_memory", ["(cmd.memory as f64)"], []),
        (CT + "count", [], []),
        (CT + "merge", ["true"], []),
    ],
}
# boolean options: (arm, setter) -> (option, value when the flag is given, value when it is not)
BOOL_EFFECTS = {
    ("Oligo", OC + "set_norm"): ("counts", False, True),
    ("Oligo", OC + "set_header"): ("header", True, False),
    ("Cgr", OG + "set_norm"): ("counts", False, True),
    ("Cov", CV + "set_norm"): ("counts", False, True),
    ("Ctr", CT + "set_acgt_output"): ("acgt", True, False),
}
BOOL_DEFAULT_FIELD = {"set_norm": "norm", "set_header": "header", "set_acgt_output": "acgt"}
ARGS_OF = {"Oligo": "OligoCommand", "Cgr": "CGRCommand", "Cov": "CoverageCommand", "Min": "MinimiserCommand",
           "Ctr": "CounterCommand"}
WS = ("composition::", "coverage::", "counter::", "misc::", "ktio::", "kmer::", "kmertools::", "pybindings::")


def cmdnorm(t):
    """replace the arm's command binding by ("cmd", Variant); Some(x) bindings of option fields by .unwrap"""
    if not isinstance(t, tuple):
        return t
    if t and t[0] == "variant" and t[2] == 0:
        inner = cmdnorm(t[3])
        if t[1] == "Some":
            return ("field", inner, "unwrap") if inner[0] == "field" else ("variant", "Some", 0, inner)
        return ("local", "cmd", t[1])
    return tuple(cmdnorm(x) if isinstance(x, tuple) else x for x in t)


def arm_variant(pat):
    """the subcommand an arm pattern selects: the variant in ARGS_OF named anywhere in the (possibly nested) pattern"""
    stack = [pat]
    top = norm_path(pat.get("path", "")).split("::")[-1]
    while stack:
        p = stack.pop()
        if not isinstance(p, dict):
            continue
        v = norm_path(p.get("path", "")).split("::")[-1]
        if v in ARGS_OF:
            return v
        stack.extend(p.get("ps", []) or [])
        stack.extend(f.get("pat") for f in (p.get("fields", []) or []))
        stack.extend(x for x in (p.get("pat"), p.get("sub")) if x)
    return top


def arm_of(t):
    for s in subterms(t):
        if s[0] == "variant" and s[2] == 0 and s[1] in ARGS_OF:
            return s[1]
    return None


def gshow(t, pol):
    t = cmdnorm(t)
    if t[0] == "iflet":
        s = "%s is Some" % show(t[2])
    else:
        s = show(t)
    return ("" if pol else "!") + s


def run(ctx):
    fv = ctx.need("C15.F", CLI, UNIT)
    ranges_rule(ctx)
    if fv is None:
        return
    preset_rule(ctx, fv)
    flow_rule(ctx, fv)
    fields_rule(ctx, fv)
    refusal_rule(ctx, fv)
    entry_rule(ctx)
    setters_rule(ctx)
    closed_list_rule(ctx, fv)
    # "presets change only the delimiter, -H only adds the column line": the header line is built with the same delimiter
    from . import c03, c05
    c03.header_line_rule(dep(ctx, "C15", "C03"))
    # "--alt-input only changes the counting source", "--acgt only changes the rendering", "every CLI result equals the
    # library result": the library routines the options reach must treat them that way
    from . import c07, c08
    fcv = ctx.view(c08.COV)
    if fcv is not None:
        c08.inputs_rule(dep(ctx, "C15", "C08"), fcv)
    c08.table_rule(dep(ctx, "C15", "C08"))
    fmg = ctx.view(c07.MERGE)
    if fmg is not None:
        c07.merge_rule(dep(ctx, "C15", "C07"), fmg)
    # "counts and default differ exactly by the per-row normalisation": the same records in both modes (the sizing pass
    # and the iterator agree on what a record is), the divisor is the number of windows binned, one delimiter per row
    from . import c06
    c06.reader_deps(ctx, "C15")     # (file input == stdin input, --counts == default up to normalisation: the decoder is
    #                                  chosen the same way — suffix table for a path, first byte for a stream — and
    #                                  delivers the same records; includes the end-of-input rule)
    c08.bin_rule(dep(ctx, "C15", "C08"))
    if fcv is not None:
        d8_ = dep(ctx, "C15", "C08")
        c08.blocks_agree(d8_, fcv)
        from .c04 import row_rule
        row_rule(d8_, fcv, "compute_coverages", None, "C08.R")
        rule_flush_pairing(d8_, "C08.F", fcv, "compute_coverages")
    # "the thread option never changes results": `-t 0` (auto) is translated to a positive worker count in BOTH minimiser
    # presets before their spawn loops; "-H only adds the column line" also when the output path already holds a longer
    # result of an earlier run: every output is opened truncating
    from . import c10, c17
    fs2_, fm2_ = ctx.view(c10.S2M), ctx.view(c10.M2S)
    if fs2_ is not None and fm2_ is not None:
        c10.agree_rule(dep(ctx, "C15", "C10"), fs2_, fm2_)
    c17.open_rules(dep(ctx, "C15", "C17"))
    fb, fm = ctx.view(c05.BATCH), ctx.view(c05.MMAP)
    if fb is not None and fm is not None:
        c05.header_rule(dep(ctx, "C15", "C05"), fb, fm)
        c05.row_agreement(dep(ctx, "C15", "C05"), fb, fm)
    # "--counts and the default differ exactly by the per-row normalisation": the divisor is the number of windows counted
    from . import c12
    for path_, who_ in (("composition::oligo::OligoComputer::vectorise_one", "composition::oligo::vectorise_one"),
                        (c12.S2K, "oligocgr::seq_to_kmer")):
        fa_ = ctx.view(path_)
        if fa_ is not None:
            acc_family(dep(ctx, "C15", "C04"), "C04.A", fa_, who_, ("param", param_index(fa_, "seq")), SF("norm"))
    # "the thread option never changes results" for `min`: one locked take per record, each line written whole by
    # one write under the writer lock, the inversion complete after the workers joined
    from . import c10
    d10 = dep(ctx, "C15", "C10")
    fs2, fm2 = ctx.view(c10.S2M), ctx.view(c10.M2S)
    for fv_ in (fs2, fm2):
        if fv_ is not None:
            rule_locked_take(d10, "C10.L", fv_, 1)
    if fs2 is not None:
        c10.s2m_rules(d10, fs2)
    if fm2 is not None:
        c10.m2s_rules(d10, fm2)
    # ... and for every subcommand: one worker per thread, also for one thread
    for path_, who_, tag_ in ((c07.CHUNK, "count_chunk", "C07"), (c05.MMAP, "vectorise_mmap", "C05"),
                              (c10.S2M, "seq_to_min", "C10"), (c10.M2S, "bin_sequences", "C10")):
        fw_ = ctx.view(path_)
        if fw_ is not None:
            rule_spawn_count(dep(ctx, "C15", tag_), tag_ + ".L", fw_, who_)


# ---------------------------------------------------------------- R

def arg_blocks(fv):
    """{arg id: block node holding its builder chain}"""
    out = {}
    for n in fv.nodes:
        if n.get("k") == "call" and cname(n) == "clap::Arg::new":
            t = fv.term(n["args"][0])
            if t[0] != "lit":
                continue
            blk = None
            for a in fv.ancestors(n):
                if a.get("k") == "block":
                    par = fv.parent.get(id(a))
                    if par is not None and par.get("k") == "mcall" and cname(par).endswith("::arg"):
                        blk = a
                        break
            out[t[1]] = blk if blk is not None else n
    return out


def range_of(fv, blk):
    for n in walk(blk):
        if n.get("k") == "mcall" and cname(n).endswith("::range"):
            t = fv.term(n["args"][0])
            if t[0] == "call" and t[1].endswith("RangeInclusive::new") and t[2][0] == "lit" and t[3][0] == "lit":
                return (t[2][1], t[3][1]), n
            if t[0] == "struct":
                d = dict(t[2])
                if t[1].endswith("ops::Range") and d.get("start", ("?",))[0] == "lit" and d.get("end", ("?",))[0] == "lit":
                    return (d["start"][1], d["end"][1] - 1), n
                if t[1].endswith("RangeFrom") and d.get("start", ("?",))[0] == "lit":
                    return (d["start"][1], None), n
                if t[1].endswith("RangeToInclusive") and d.get("end", ("?",))[0] == "lit":
                    return (None, d["end"][1]), n
                if t[1].endswith("RangeTo") and d.get("end", ("?",))[0] == "lit":
                    return (None, d["end"][1] - 1), n
            return ("unreadable", show(t)), n
    return None, None


def ranges_rule(ctx, structs=None):
    seen = 0
    for (struct, opt), want in sorted(RANGES.items()):
        if structs is not None and struct not in structs:
            continue
        path = "<kmertools::args::%s as clap::Args>::augment_args" % struct
        fv = ctx.need("C15.R", path, UNIT)
        if fv is None:
            continue
        blk = arg_blocks(fv).get(opt)
        key = "%s.%s" % (struct, opt)
        if blk is None:
            ctx.fail("C15.R", key, "option `%s` of %s is no longer declared" % (opt, struct), fv.fn["sp"])
            continue
        got, node = range_of(fv, blk)
        seen += 1
        sp = line_of(node) if node is not None else line_of(blk)
        if got is None:
            ctx.fail("C15.R", key, "option `%s` of %s has no value_parser range any more: out-of-range values are "
                     "accepted (documented: %s)" % (opt, struct, fmt_range(want)), sp)
            continue
        ctx.check("C15.R", key, got == want, "%s in %s" % (opt, fmt_range(want)),
                  "option `%s` of %s accepts %s, documented range is %s" % (opt, struct, fmt_range(got), fmt_range(want)), sp)
        if (struct, opt) in K_LIKE and got[0] != "unreadable":
            ok = got[0] is not None and got[0] >= 1 and got[1] is not None and got[1] <= 31
            ctx.check("C15.R", key + ":fits_64_bits", ok, "k/m bound keeps 2k <= 62 bits",
                      "option `%s` of %s admits %s; k-mer registers hold at most k = 31 (2k <= 62 bits) and k >= 1"
                      % (opt, struct, fmt_range(got)), sp)
        if (struct, opt) in POSITIVE and got[0] != "unreadable":
            ctx.check("C15.R", key + ":positive", got[0] is not None and got[0] >= 1, "bin option >= 1",
                      "option `%s` admits 0 (division by zero / empty histogram)" % opt, sp)
    # the same derive is compiled into the binary: its ranges must agree with the library's
    for (struct, opt) in sorted(RANGES):
        if structs is not None and struct not in structs:
            continue
        path = "<kmertools::args::%s as clap::Args>::augment_args" % struct
        a, b = ctx.view(path, UNIT), ctx.view(path.replace("kmertools::args", "kmertools::args"), "kmertools-kmertools-bin")
        if a is None or b is None:
            continue
        ra = range_of(a, arg_blocks(a).get(opt) or a.body)[0]
        rb = range_of(b, arg_blocks(b).get(opt) or b.body)[0]
        if ra != rb:
            ctx.fail("C15.R", "%s.%s:lib_vs_bin" % (struct, opt), "library build declares %s, binary build %s" % (ra, rb), a.fn["sp"])


def fmt_range(r):
    if r[0] == "unreadable":
        return "an unreadable range `%s`" % r[1]
    lo = "" if r[0] is None else str(r[0])
    hi = "" if r[1] is None else "=%d" % r[1]
    return "%s..%s" % (lo, hi)


# ---------------------------------------------------------------- P

def preset_rule(ctx, fv, arms=None):
    n_tables = 0
    for m in fv.nodes:
        if m.get("k") != "match" or m["e"].get("k") != "field" or m["e"]["name"] != "preset":
            continue
        arm = arm_of(fv.term(m["e"]))
        if arms is not None and arm not in arms:
            continue
        got = {}
        for a in m["arms"]:
            variant = norm_path(a["pat"].get("path", "")).split("::")[-1]
            calls = [x for x in walk(a["body"]) if x.get("k") in ("call", "mcall") and cname(x).startswith(WS)]
            if not calls:
                got[variant] = None        # a value table (`match preset { Csv => ",", .. }`): read by the third form below
                continue
            if len(calls) != 1:
                got[variant] = "<%d calls>" % len(calls)
                continue
            c = calls[0]
            if cname(c).endswith("set_delim"):
                t = fv.term(c["args"][0])
                while t[0] == "call" and len(t) == 3:
                    t = t[2]
                got[variant] = t[1] if t[0] == "lit" else show(t)
            else:
                got[variant] = cname(c)
        if got and all(v is None for v in got.values()):
            continue
        n_tables += 1
        want = MIN_PRESETS if arm == "Min" else PRESETS
        for v, exp in want.items():
            ctx.check("C15.P", "%s:preset_%s" % (arm, v), got.get(v) == exp, "%s -> %r" % (v, exp),
                      "preset %s of the `%s` subcommand selects %r, expected %r" % (v, arm, got.get(v), exp), line_of(m))
        extra = set(got) - set(want)
        if extra:
            ctx.fail("C15.P", "%s:preset_extra" % arm, "unexpected preset arms %s" % sorted(extra), line_of(m))
    # the delimiter may come from a helper `f(&command.preset) -> String`: read the table from the helper's match
    for c in fv.nodes:
        if c.get("k") == "mcall" and cname(c).endswith("set_delim"):
            at = fv.term(c["args"][0])
            if at[0] == "call" and at[1].startswith("kmertools::args::") and len(at) == 3 and at[2][0] == "field" and at[2][2] == "preset":
                arm = arm_of(at[2])
                if arms is not None and arm not in arms:
                    continue
                hv = ctx.view(at[1], UNIT)
                if hv is None or arm is None:
                    continue
                hm = next((x for x in hv.nodes if x.get("k") == "match"), None)
                got = {}
                if hm is not None and hv.term(hm["e"]) == ("param", 0):
                    for a in hm["arms"]:
                        variant = norm_path(a["pat"].get("path", "")).split("::")[-1]
                        t = hv.term(a["body"])
                        while t[0] == "call" and len(t) == 3:
                            t = t[2]
                        got[variant] = t[1] if t[0] == "lit" else show(t)
                n_tables += 1
                for v, exp in PRESETS.items():
                    ctx.check("C15.P", "%s:preset_%s" % (arm, v), got.get(v) == exp, "%s -> %r (via %s)" % (v, exp, at[1].split("::")[-1]),
                              "preset %s of the `%s` subcommand selects %r (through %s), expected %r" % (v, arm, got.get(v), at[1], exp), line_of(c))
                extra = set(got) - set(PRESETS)
                if extra:
                    ctx.fail("C15.P", "%s:preset_extra" % arm, "unexpected preset arms %s" % sorted(extra), line_of(c))
    # ... or from a match that is itself the argument (`set_delim(match preset { Csv => ",", .. })`, e.g. an expanded helper)
    for c in fv.nodes:
        if c.get("k") == "mcall" and cname(c).endswith("set_delim") and c.get("args"):
            a = c["args"][0]
            while a is not None and ((a.get("k") in ("block", "addr") and not a.get("stmts")) or
                                     (a.get("k") in ("mcall", "call") and cname(a).split("::")[-1] in
                                      ("to_owned", "to_string", "into", "from", "clone") and len(call_args(a)) == 1)):
                if a.get("k") == "block":
                    a = a.get("expr")
                elif a.get("k") == "addr":
                    a = a.get("e")
                else:
                    a = call_args(a)[0]
                if a is not None and a.get("k") == "local":
                    o_ = fv.origin(a)
                    if o_ is not None and o_ is not a:
                        a = o_
            if a is None or a.get("k") != "match":
                continue
            st = fv.term(a["e"])
            if not (st[0] == "field" and st[2] == "preset"):
                continue
            arm = arm_of(st)
            if arms is not None and arm not in arms:
                continue
            got = {}
            for ar in a["arms"]:
                variant = norm_path(ar["pat"].get("path", "")).split("::")[-1]
                t = fv.term(ar["body"])
                while t[0] == "call" and len(t) == 3:
                    t = t[2]
                got[variant] = t[1] if t[0] == "lit" else show(t)
            n_tables += 1
            for v, exp in PRESETS.items():
                ctx.check("C15.P", "%s:preset_%s" % (arm, v), got.get(v) == exp, "%s -> %r" % (v, exp),
                          "preset %s of the `%s` subcommand selects %r, expected %r" % (v, arm, got.get(v), exp), line_of(c))
            extra = set(got) - set(PRESETS)
            if extra:
                ctx.fail("C15.P", "%s:preset_extra" % arm, "unexpected preset arms %s" % sorted(extra), line_of(c))
    if n_tables < (3 if arms is None else 1):
        ctx.fail("C15.P", "presets:floor", "expected 3 preset dispatch tables (oligo, cov, min), found %d" % n_tables, fv.fn["sp"])


# ---------------------------------------------------------------- F

def eval_pred(t, env):
    """evaluate a boolean/integer term over cmd.<field> variables given in env; None if not evaluable"""
    h = t[0]
    if h == "lit":
        return t[1]
    if h == "field" and t[1][0] == "local" and t[1][1] == "cmd":
        return env.get(t[2])
    if h == "cast":
        return eval_pred(t[2], env)
    if h == "un" and t[1] == "!":
        v = eval_pred(t[2], env)
        return None if v is None else (not v)
    if h == "bin":
        a, b = eval_pred(t[2], env), eval_pred(t[3], env)
        if a is None or b is None:
            return None
        op = t[1]
        return {"==": a == b, "!=": a != b, "<": a < b, "<=": a <= b, "&&": bool(a) and bool(b), "||": bool(a) or bool(b),
                "+": a + b if not isinstance(a, bool) else None, "-": a - b if not isinstance(a, bool) else None}.get(op)
    return None


def window_refusal(w, m):
    return w > 0 and w <= m


def classify_refusal(t):
    """'window' / 'm_too_long' / None for the (positive) condition of a refusal"""
    dom = [(w, m) for w in range(0, 46) for m in range(0, 41)]
    vals = [eval_pred(t, {"w_size": w, "m_size": m}) for w, m in dom]
    if any(v is None for v in vals):
        return None
    if all(bool(v) == window_refusal(w, m) for v, (w, m) in zip(vals, dom)):
        return "window"
    if all(bool(v) == (m >= 31) for v, (w, m) in zip(vals, dom)):
        return "m_too_long"
    return None


def refusal_guard_terms(gts):
    """guards [(term, polarity)] of the run call == not window_refusal (and optionally not m >= 31), decided by
    evaluating the conjunction over w in 0..45, m in 0..30"""
    dom = [(w, m) for w in range(0, 46) for m in range(0, 31)]
    for w, m in dom:
        vs = []
        for t, pol in gts:
            v = eval_pred(t, {"w_size": w, "m_size": m})
            if v is None:
                return False
            vs.append(bool(v) == pol)
        if all(vs) != (not window_refusal(w, m)):
            return False
    return True


def refusal_guards(gl):
    need = "!((0 < cmd.w_size) && (cmd.w_size <= cmd.m_size))"
    opt = "!(31 <= cmd.m_size)"      # implied by the clap range when its upper bound is <= 30 (checked in C15.Z)
    return need in gl and all(g in (need, opt) for g in gl)


def ctor_default(ctx, setter):
    """literal the constructor gives the boolean field a setter writes"""
    owner = setter.rsplit("::", 1)[0]
    fv = ctx.view(owner + "::new")
    if fv is None:
        return None
    lit = struct_literal(fv, owner)
    if lit is None:
        return None
    t = struct_fields(fv, lit).get(BOOL_DEFAULT_FIELD.get(setter.split("::")[-1], ""))
    return t[1] if t is not None and t[0] == "lit" and isinstance(t[1], bool) else None


def bool_effect(ctx, setter, opt, args, guards):
    """(value when flag given, value when not) of a boolean setter wiring, or None if not of a known form.
    `extra` guards other than the flag itself are returned for comparison."""
    flag = "cmd." + opt
    if len(args) != 1:
        return None
    a = args[0]
    other = [g for g in guards if g not in (flag, "!" + flag)]
    cond = [g for g in guards if g in (flag, "!" + flag)]
    default = ctor_default(ctx, setter)
    if len(cond) == 1 and a in (flag, "!" + flag):
        a = "true" if a == cond[0] else "false"          # the flag's own value under a test of the flag is a constant
    if a in ("true", "false") and len(cond) == 1 and default is not None:
        v = a == "true"
        return ((v, default) if cond[0] == flag else (default, v)), other
    if a == flag and not cond:
        return (True, False), other
    if a == "!" + flag and not cond:
        return (False, True), other
    return None


def flow_rule(ctx, fv, arms=None):
    """arms: restrict the judgement to these subcommand arms (dependency use by other properties)"""
    actual = {}
    for n in fv.nodes:
        if n.get("k") not in ("call", "mcall"):
            continue
        c = cname(n)
        if not c.startswith(WS) or c.endswith("set_delim"):
            continue
        if c.startswith("kmertools::args::"):
            continue      # module-private helper: judged by C15.X (purity) and through the terms it feeds
        args = n["args"]
        ats = [fv.term(a) for a in args]
        arm = None
        for t in ats + [fv.term(g) for g, _ in fv.guards(n)] + ([fv.term(n["recv"])] if n.get("k") == "mcall" else []):
            arm = arm or arm_of(t)
        if arm is None:
            # receiver bound to a constructor call of this arm
            for a in fv.ancestors(n):
                if a.get("k") == "match":
                    for ar in a["arms"]:
                        if any(x is n for x in walk(ar["body"])):
                            v = arm_variant(ar["pat"])
                            if v in ARGS_OF:
                                arm = v
                    if arm:
                        break
        sargs = []
        for t in ats:
            t = cmdnorm(t)
            s = show(t)
            if "powf" in s:
                s = "VECSIZE_K"
            sargs.append(s)
        gl = [gshow(fv.term(g), pol) for g, pol in fv.guards(n)]
        if arm == "Min" and (refusal_guards(gl) or refusal_guard_terms([(cmdnorm(fv.term(g)), pol) for g, pol in fv.guards(n)])):
            gl = ["REFUSALS"]
        actual.setdefault(arm, []).append((c, sargs, sorted(gl), n))
    total = 0
    for arm, exp in FLOW.items():
        if arms is not None and arm not in arms:
            total += len(exp)
            continue
        got = actual.get(arm, [])
        for callee, args, guards in exp:
            total += 1
            cands = [g for g in got if g[0] == callee]
            key = "%s:%s" % (arm, callee.split("::")[-2] + "::" + callee.split("::")[-1])
            if len(cands) != 1:
                ctx.fail("C15.F", key, "`%s` is called %d times in the `%s` arm of cli(), expected once"
                         % (callee, len(cands), arm), line_of(cands[0][3]) if cands else fv.fn["sp"])
                continue
            _, ga, gg, node = cands[0]
            be = BOOL_EFFECTS.get((arm, callee))
            if be is not None:
                opt, von, voff = be
                got_e = bool_effect(ctx, callee, opt, ga, gg)
                exp_other = sorted(g for g in guards if g not in ("cmd." + opt, "!cmd." + opt))
                ok_e = got_e is not None and got_e[0] == (von, voff) and sorted(got_e[1]) == exp_other
                ctx.check("C15.F", key, ok_e,
                          "--%s given -> %s(%s), otherwise %s" % (opt, callee.split("::")[-1], von, voff),
                          "`%s` is wired as (%s) under %s, i.e. %s; expected: with --%s the value is %s, without it %s "
                          "(under %s)" % (callee, ", ".join(ga), gg or "no condition",
                                          ("flag->%s, no flag->%s" % got_e[0]) if got_e else "an unrecognised form",
                                          opt, von, voff, exp_other or "no other condition"), line_of(node))
                continue
            ctx.check("C15.F", key, ga == args and gg == sorted(guards),
                      "%s(%s) under %s" % (callee.split("::")[-1], ", ".join(args), guards or "no condition"),
                      "`%s` is wired as (%s) under %s; expected (%s) under %s — an option reaches the wrong "
                      "parameter, with the wrong polarity, or under the wrong condition"
                      % (callee, ", ".join(ga), gg or "no condition", ", ".join(args), sorted(guards) or "no condition"),
                      line_of(node))
        extra = [g for g in got if g[0] not in [e[0] for e in exp]]
        for g in extra:
            ctx.fail("C15.F", "%s:extra:%s" % (arm, g[0].split("::")[-1]),
                     "the `%s` arm additionally calls `%s(%s)`: the options would do more than they say"
                     % (arm, g[0], ", ".join(g[1])), line_of(g[3]))
    # order: every option is applied (set_*) before the computation it configures starts (any other method of the
    # same computer: build_table, compute_coverages, vectorise, count, merge ..)
    order = {id(n): i for i, n in enumerate(fv.nodes)}
    for arm, got in actual.items():
        if arm is None or (arms is not None and arm not in arms):
            continue
        by_type = {}
        for callee, sargs, gl, node in got:
            parts = callee.split("::")
            if len(parts) < 2 or node.get("k") != "mcall":
                continue
            by_type.setdefault("::".join(parts[:-1]), []).append((parts[-1], node))
        for ty, calls in by_type.items():
            setters = [(nm, nd) for nm, nd in calls if nm.startswith("set_")]
            actions = [(nm, nd) for nm, nd in calls if not nm.startswith("set_") and nm != "new"]
            late = [(nm, nd) for nm, nd in setters if actions and order[id(nd)] > min(order[id(a[1])] for a in actions)]
            ctx.check("C15.F", "%s:%s:setters_before_run" % (arm, ty.split("::")[-1]), not late,
                      "%d option setter(s) applied before %s" % (len(setters), "/".join(sorted(set(a[0] for a in actions))) or "the run"),
                      "`%s` is called after `%s` has already run: the option it carries is ignored by that step (the CLI "
                      "result differs from the library result with the same settings)"
                      % (late[0][0] if late else "", sorted(actions, key=lambda a: order[id(a[1])])[0][0] if actions else ""),
                      line_of(late[0][1]) if late else None)
    if total < 29:
        ctx.fail("C15.F", "flow:floor", "flow table shrank")
    # k-mode default vector size is not constrained; whole-seq default is 1 (in table)


# ---------------------------------------------------------------- U

def fields_rule(ctx, fv):
    for arm, struct in ARGS_OF.items():
        adt = ctx.prog.adts.get("kmertools::args::%s" % struct)
        if adt is None:
            ctx.fail("C15.U", "%s:anchor" % struct, "Args struct %s not found" % struct)
            continue
        fields = [f["name"] for f in adt["variants"][0]["fields"]]
        read = set()
        for n in fv.nodes:
            if n.get("k") == "field" and n.get("adt") == "kmertools::args::%s" % struct:
                read.add(n["name"])
            # `Commands::Ctr(CounterCommand { input, output, .. })`: a field bound by a struct pattern is read
            pats = [a["pat"] for a in n.get("arms", [])] if n.get("k") == "match" else \
                ([n["pat"]] if n.get("k") in ("let", "letexpr") and isinstance(n.get("pat"), dict) else [])
            stack = list(pats)
            while stack:
                p_ = stack.pop()
                if not isinstance(p_, dict):
                    continue
                if p_.get("k") == "pstruct" and norm_path(p_.get("path", "")) == "kmertools::args::%s" % struct:
                    for f_ in p_.get("fields", []):
                        if f_.get("pat", {}).get("k") != "pwild":
                            read.add(f_["name"])
                stack.extend(p_.get("ps", []) or [])
                stack.extend(f_.get("pat") for f_ in (p_.get("fields", []) or []))
                stack.extend(x for x in (p_.get("pat"), p_.get("sub")) if x)
        for f in fields:
            ctx.check("C15.U", "%s.%s" % (struct, f), f in read, "option `%s` is read by cli()" % f,
                      "option `%s` of %s is declared but never read in cli(): it is silently ignored" % (f, struct),
                      adt["sp"], nontrivial=False)


# ---------------------------------------------------------------- Z

def output_creators(ctx):
    """workspace functions from which an output-creating std call is reachable"""
    sinks = ("std::fs::File::create", "std::fs::OpenOptions::open", "std::fs::create_dir_all", "std::fs::create_dir",
             "std::fs::write", "std::fs::File::create_new")
    direct = {}
    calls = {}
    for f in ctx.prog.workspace_fns():
        v = ctx.view(f["npath"], f["unit"])
        cs = set()
        hit = False
        for n in v.nodes:
            if n.get("k") in ("call", "mcall"):
                c, r = cname(n), rname(n)
                if c in sinks or r in sinks:
                    hit = True
                cs.add(c)
                cs.add(r)
        direct[f["npath"]] = hit
        calls[f["npath"]] = cs
    reach = {p for p, h in direct.items() if h}
    changed = True
    while changed:
        changed = False
        for p, cs in calls.items():
            if p not in reach and cs & reach:
                reach.add(p)
                changed = True
    return reach


def is_stderr_diag(fv, x):
    """eprint!/eprintln!, or a write whose receiver is the process's stderr handle"""
    if x.get("k") == "call" and cname(x) == "std::io::_eprint":
        return True
    if x.get("k") == "mcall" and cname(x).split("::")[-1] in ("write_all", "write_fmt", "write"):
        recv = fv.term(x["recv"]) if x.get("recv") else None
        return recv is not None and contains(recv, lambda s_: s_[0] == "call" and s_[1] == "std::io::stderr")
    return False


def refusal_rule(ctx, fv):
    creators = output_creators(ctx)
    rets = [n for n in fv.nodes if n.get("k") == "ret" or n.get("was_ret")]   # was_ret: early exit of an expanded helper
    want = {
        "Min:window_not_longer_than_m": lambda t: t == "((0 < cmd.w_size) && (cmd.w_size <= cmd.m_size))",
        "Min:m_too_long": lambda t: t == "(31 <= cmd.m_size)",
        "Cgr:counts_in_whole_sequence": lambda t: t == "cmd.counts",
    }
    found = {}
    for r in rets:
        gs = [(gshow(fv.term(g), True), pol, g) for g, pol in fv.guards(r, with_asserts=False)]
        for name, pred in want.items():
            if any(pred(s) and pol for s, pol, _ in gs):
                found[name] = r
        # the same refusals written differently (`w != 0 && !(w > m)`, `m > 30`): decided by evaluation over a finite domain
        for g, pol in fv.guards(r, with_asserts=False):
            if pol:
                kind = classify_refusal(cmdnorm(fv.term(g)))
                if kind == "window":
                    found.setdefault("Min:window_not_longer_than_m", r)
                elif kind == "m_too_long":
                    found.setdefault("Min:m_too_long", r)
    for name in want:
        r = found.get(name)
        if r is None and name == "Min:m_too_long":
            am = ctx.view("<kmertools::args::MinimiserCommand as clap::Args>::augment_args", UNIT)
            rg = range_of(am, arg_blocks(am).get("m_size") or am.body)[0] if am is not None else None
            okr = rg is not None and rg[0] != "unreadable" and rg[1] is not None and rg[1] <= 30
            ctx.check("C15.Z", name, okr, "m >= 31 is already refused by the option's range %s" % (fmt_range(rg) if rg else "?"),
                      "cli() no longer refuses m >= 31 and the clap range %s admits it" % (fmt_range(rg) if rg else "<none>"), fv.fn["sp"])
            continue
        if r is None:
            # the same refusal without a `return`: a branch taken under the condition that prints the diagnostic, while
            # every output-creating call of the arm runs only under the negated condition
            def holds(g, pol, want_pol):
                s_ = gshow(fv.term(g), True)
                if want[name](s_):
                    return pol == want_pol
                kind = classify_refusal(cmdnorm(fv.term(g))) if name.startswith("Min:") else None
                if kind is not None and kind == {"Min:window_not_longer_than_m": "window", "Min:m_too_long": "m_too_long"}.get(name):
                    return pol == want_pol
                return False
            diags = [x for x in fv.nodes if is_stderr_diag(fv, x)
                     and any(holds(g, pol, True) for g, pol in fv.guards(x))]
            arm_name = name.split(":")[0]
            in_arm = []
            for n in fv.nodes:
                if n.get("k") in ("call", "mcall") and (cname(n) in creators or rname(n) in creators):
                    for a in fv.ancestors(n):
                        if a.get("k") == "match" and any(arm_variant(ar["pat"]) == arm_name and any(x is n for x in walk(ar["body"]))
                                                         for ar in a["arms"]):
                            in_arm.append(n)
                            break
            dg = set((repr(fv.term(g)), pol) for d_ in diags[:1] for g, pol in fv.guards(d_))
            unguarded = [n for n in in_arm if not any(holds(g, pol, False) for g, pol in fv.guards(n))
                         and not any((repr(fv.term(g)), not pol) in dg for g, pol in fv.guards(n))]
            if diags and in_arm and not unguarded:
                ctx.ok("C15.Z", name, "refused by a diagnostic-only branch; every output-creating call of the arm runs "
                       "under the negated condition", line_of(diags[0]))
                ctx.ok("C15.Z", name + ":diagnostic", "prints a diagnostic", line_of(diags[0]))
                ctx.ok("C15.Z", name + ":before_output", "no output-creating call is reachable under the refusal", line_of(diags[0]))
                continue
            ctx.fail("C15.Z", name, "the refusal `%s` (diagnostic + return before any output) is gone from cli()" % name, fv.fn["sp"])
            continue
        # diagnostic before the return, in the same block
        blk = fv.enclosing(r, ("block",))
        diag = [x for x in walk(blk) if is_stderr_diag(fv, x)]
        ctx.check("C15.Z", name + ":diagnostic", len(diag) >= 1, "prints a diagnostic on stderr",
                  "the refusal prints no diagnostic on stderr (stdout carries results when the output is `-`, and scripts "
                  "read the reason from stderr)", line_of(r))
        # every output-creating call of the arm comes later in block order
        arm_match = None
        for a in fv.ancestors(r):
            if a.get("k") == "match":
                arm_match = a
        order = {id(n): i for i, n in enumerate(fv.nodes)}
        early = []
        arm_name = name.split(":")[0]
        for n in fv.nodes:
            if n.get("k") in ("call", "mcall") and (cname(n) in creators or rname(n) in creators):
                in_same_arm = False
                for a in fv.ancestors(n):
                    if a.get("k") == "match":
                        for ar in a["arms"]:
                            if arm_variant(ar["pat"]) == arm_name and any(x is n for x in walk(ar["body"])):
                                in_same_arm = True
                if in_same_arm and order[id(n)] < order[id(r)]:
                    # allowed if it is in the other branch of a conditional that excludes the refusal
                    gn = set((repr(fv.term(g)), pol) for g, pol in fv.guards(n, with_asserts=False))
                    gr = set((repr(fv.term(g)), pol) for g, pol in fv.guards(r, with_asserts=False))
                    exclusive = any((c, not pol) in gr for c, pol in gn)
                    if not exclusive:
                        early.append(n)
        ctx.check("C15.Z", name + ":before_output", not early, "no output-creating call precedes the refusal",
                  "`%s` (creates output) runs before the refusal `%s` is evaluated" % (cname(early[0]) if early else "", name),
                  line_of(early[0]) if early else None)


# ---------------------------------------------------------------- E / X

def entry_rule(ctx):
    callers = {}
    for f in ctx.prog.workspace_fns():
        v = ctx.view(f["npath"], f["unit"])
        for n in v.nodes:
            if n.get("k") == "call" and cname(n) == CLI:
                t = v.term(n["args"][0])
                callers[(f["unit"].split("-")[0], f["npath"])] = t
    names = sorted(p for _, p in callers)
    ok = names == ["kmertools::main", "pykmertools::run_cli"] or names == ["kmertools::main", "kmertools::main", "pykmertools::run_cli"]
    ctx.check("C15.E", "cli:callers", ok, "cli() is called only from main and pip::run_cli",
              "cli() is called from %s" % names, None)
    for (u, p), t in callers.items():
        okp = t[0] == "call" and t[1] in ("clap::Parser::parse", "clap::Parser::parse_from")
        ctx.check("C15.E", "%s:parsed_by_clap" % p, okp, "argument = %s" % show(t)[:60],
                  "cli() receives `%s`, not the value returned by clap's parser (range refusals would be bypassed)" % show(t), None)


ALLOWED = set(c for arm in FLOW.values() for c, _, _ in arm) | {OC + "set_delim", CV + "set_delim"}


def closed_list_rule(ctx, fv):
    bad = []
    n = 0
    for x in fv.nodes:
        if x.get("k") in ("call", "mcall"):
            c = cname(x)
            if c.startswith(WS):
                n += 1
                if c not in ALLOWED:
                    # a private pure helper of this module (no workspace or fs calls of its own) is not an extra effect
                    hv = ctx.view(c, UNIT) if c.startswith("kmertools::args::") else None
                    pure = hv is not None and not any(
                        y.get("k") in ("call", "mcall") and (cname(y).startswith(WS) or cname(y).startswith("std::fs::")
                                                             or cname(y).startswith("std::process::"))
                        for y in hv.nodes)
                    if not pure:
                        bad.append(x)
            if c.startswith("std::fs::") or c.startswith("std::process::"):
                bad.append(x)
    ctx.check("C15.X", "cli:closed_call_list", not bad and n >= 30,
              "cli() calls only the %d listed constructors/setters/run methods (%d call sites)" % (len(ALLOWED), n),
              "cli() calls `%s`, which is outside the closed list of constructors, setters and run methods"
              % (cname(bad[0]) if bad else ""), line_of(bad[0]) if bad else fv.fn["sp"])



def cli_arm_dep(ctx, prop, arms, presets=False):
    """the CLI is an observation point of most properties: the options of the named subcommand arm(s) reach the
    computation's constructor and setters as documented (re-checked under the depending property's ids)"""
    fcli = ctx.view(CLI, UNIT)
    if fcli is not None:
        flow_rule(dep(ctx, prop, "C15"), fcli, arms=arms)
        if presets:
            preset_rule(dep(ctx, prop, "C15"), fcli, arms=arms)
    setters_rule(dep(ctx, prop, "C15"), arms)
    if prop not in ("C03", "C16"):      # (those two bind the ranges themselves)
        ranges_rule(dep(ctx, prop, "C15"), structs=tuple(ARGS_OF[a] for a in arms))     # every documented value is accepted



SETTER_ADTS = {"Oligo": ["composition::oligo::OligoComputer"], "Cgr": ["composition::cgr::CgrComputer", "composition::oligocgr::OligoCgrComputer"],
               "Cov": ["coverage::CovComputer", "counter::CountComputer"], "Ctr": ["counter::CountComputer"], "Min": []}


def setters_rule(ctx, arms=None, R="C15.S"):
    """every `set_*` method of the computers stores its argument, unconditionally, in one field: an option handed to
    a setter cannot be dropped or altered on the way (`if delim.trim().is_empty() { return }` loses the TSV preset)"""
    adts = sorted(set(a for arm, l in SETTER_ADTS.items() if arms is None or arm in arms for a in l))
    n = 0
    for f in ctx.prog.workspace_fns():
        p = f["npath"]
        adt, _, name = p.rpartition("::")
        if adt not in adts or not name.startswith("set_") or f.get("mac"):
            continue
        fv = ctx.view(p, f["unit"])
        n += 1
        ws = [x for x in fv.nodes if x.get("k") in ("assign", "assignop")]
        branchy = [x for x in fv.nodes if x.get("k") in ("if", "match", "ret", "loop", "for", "while")]
        ok = len(ws) == 1 and ws[0].get("k") == "assign" and fv.term(ws[0]["l"])[0] == "field" and fv.term(ws[0]["l"])[1] == ("self",) \
            and fv.term(ws[0]["r"]) == ("param", 1) and not branchy
        ctx.check(R, "%s::%s" % (adt.split("::")[-1], name), ok, "stores its argument in self.%s" % (fv.term(ws[0]["l"])[2] if ws else "?"),
                  "`%s` does not simply store its argument (%d assignment(s), %d branch(es)): an option value can be "
                  "dropped or changed between the command line and the computation" % (p, len(ws), len(branchy)), fv.fn["sp"])
    if arms is None and n < 16:
        ctx.fail(R, "setters:floor", "expected the 16 setters of the five computers, found %d" % n)
