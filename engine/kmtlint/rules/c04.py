"""C04 — oligo vector of a record counts its canonical k-mers, raw or normalised."""
from .common import *

EXPLANATION = (
    "Slot analysis of the three copies of the accumulation loop (composition::oligo, "
    "composition::oligocgr::seq_to_kmer, pybindings::oligo): source = KmerGenerator::new(seq, k) with "
    "the constructor's k, key = min(fwd, rev), column = rank_map[key], exactly one += 1.0 on the bucket "
    "and on the total per item with no conditional control flow, normalisation only under the norm "
    "flag dividing every element by max(1.0, total), bucket returned; value format = 6 decimals "
    "under norm / plain Display otherwise, selected by the same flag. Decides these for all records; "
    "does not compare numbers with an independent count.")
ASSUMPTIONS = ["strand/case/U invariance follows from the encode table (C01.T1) and min (C03.M)"]

MEMBERS = [
    ("composition::oligo::OligoComputer::vectorise_one", "seq", None),
    ("composition::oligocgr::OligoCgrComputer::seq_to_kmer", "seq", None),
    ("pybindings::oligo::OligoComputer::vectorise_one", "seq", "norm"),
]


def run(ctx):
    for path, seqp, normp in MEMBERS:
        fv = ctx.need("C04.A", path)
        if fv is None:
            continue
        seq_t = ("param", param_index(fv, seqp))
        norm_t = ("param", param_index(fv, normp)) if normp else SF("norm")
        acc_family(ctx, "C04.A", fv, path.split("::")[0] + "::" + path.split("::")[1] + "::" + path.split("::")[-1], seq_t, norm_t)
    ctx.floor("C04.A", 3 * 9)
    # format slots
    n = 0
    fv = ctx.need("C04.F", "composition::oligo::OligoComputer::vectorise_batch")
    if fv is not None:
        n += number_format_rule(ctx, "C04.F", fv, "oligo::batch", None, SF("norm"))
        row_rule(ctx, fv, "oligo::batch")
    fv = ctx.need("C04.F", "composition::oligo::OligoComputer::vectorise_mmap")
    if fv is not None:
        spawn = [x for x in fv.nodes if x.get("k") == "closure" and any(True for _ in fv.calls_to("ktio::mmap::MMWriter::write_at", root=x))]
        root = spawn[-1] if spawn else None
        n += number_format_rule(ctx, "C04.F", fv, "oligo::mmap", root, SF("norm"), expect_norm_only=True)
        row_rule(ctx, fv, "oligo::mmap", root)
    ctx.floor("C04.F", 5)
    # the counted windows come from the k-mer iterator and the columns from the rank map
    from . import c01, c03
    c01.run(dep(ctx, "C04", "C01"))
    c03.maps_rules(dep(ctx, "C04", "C03"), "C03")
    for ctor_, adt_, roles_ in c03.POSMAP_OWNERS:          # the vector has the columns of the k that was asked for
        c03.rule_posmap_ctor(dep(ctx, "C04", "C03"), "C03.H", ctor_, adt_, roles_)
    c03.canonical_min_rule(dep(ctx, "C04", "C03"), "C03.M")
    # "the row of a record holds the counts of THAT record": the batch writer keeps arrival order
    fb_ = ctx.view("composition::oligo::OligoComputer::vectorise_batch")
    if fb_ is not None:
        d5 = dep(ctx, "C04", "C05")
        rule_ordered_collects(d5, "C05.O", fb_, 1)
        rule_sink_sequential(d5, "C05.O", fb_, "oligo::vectorise_batch")
        rule_flush_pairing(d5, "C05.F", fb_, "oligo::vectorise_batch")
    fmm_ = ctx.view("composition::oligo::OligoComputer::vectorise_mmap")
    if fmm_ is not None:
        rule_spawn_count(dep(ctx, "C04", "C05"), "C05.L", fmm_, "vectorise_mmap")      # a row per record needs a worker
        from . import c05
        c05.selection_rule(dep(ctx, "C04", "C05"), fmm_)                               # each mode reaches a writer that can serve it
        # every record taken by a worker gets its row, placed where no other row or the header lies
        rule_taken_reaches(dep(ctx, "C04", "C05"), "C05.T", fmm_, "vectorise_mmap",
                           lambda n: n.get("k") == "mcall" and cname(n) == "ktio::mmap::MMWriter::write_at", "row write")
        c05.offset_rule(dep(ctx, "C04", "C05"), fmm_)
        from . import c14
        c14.size_rule(dep(ctx, "C04", "C14"), fmm_)
        c14.writer_rule(dep(ctx, "C04", "C14"), fmm_)
        if fb_ is not None:
            c05.header_rule(dep(ctx, "C04", "C05"), fb_, fmm_)          # nothing but the one header line stands between rows
    from . import c06
    c06.reader_deps(ctx, "C04")
    from . import c15
    c15.cli_arm_dep(ctx, "C04", ('Oligo',))


def row_rule(ctx, fv, who, root=None, rule="C04.F"):
    """row = values.join(delim) + newline"""
    rows = find_rows(fv, root, ctx)
    good = [1 for n, j, d in rows if d == SF("delim")]
    ctx.check(rule, "%s:row" % who, len(rows) >= 1 and len(good) == len(rows),
              "row = values.join(self.delim) + \"\\n\"",
              "row text is not `values.join(&self.delim)` followed by a newline (found %s)"
              % [show(j) for n, j, d in rows], line_of(rows[0][0]) if rows else fv.fn["sp"])
