"""C12 — k-mer CGR pairs each canonical k-mer's CGR position with its oligo frequency."""
from .common import *
from . import c03, c11
from ..core import sym_paths

EXPLANATION = (
    "(K) OligoCgrComputer::new places numeric_to_kmer(kmer, k) at its rank with the constructor's k and "
    "stores map/count/k from one kmer_pos_maps(k) call; (Z) vectorise_one zips self.kmers (rank order) "
    "with the frequency vector of seq_to_kmer(seq), which is indexed through the rank map of the same "
    "call; (F) seq_to_kmer is a member of the oligo accumulation family (same slots as C04); (R) the "
    "marker is re-initialised to the centre inside the per-k-mer loop, the inner per-base loop is the "
    "CGR sibling loop (C11.M/E), and exactly one (marker, *freq) is pushed after it; (T) point text "
    "\"({},{},{})\" of (x, y, f); (O) ordered collect, sequential sink, flush pairing; set_norm writes "
    "only norm. Does not decide coordinates or frequencies numerically.")
ASSUMPTIONS = ["C03 (rank bijection), C04 (frequency loop), C11 (midpoint loop)"]

ONE = "composition::oligocgr::OligoCgrComputer::vectorise_one"
NEW = "composition::oligocgr::OligoCgrComputer::new"
S2K = "composition::oligocgr::OligoCgrComputer::seq_to_kmer"
ADT = "composition::oligocgr::OligoCgrComputer"


def run(ctx):
    c03.rule_posmap_ctor(ctx, "C12.K", NEW, ADT, {"pos_map": "pos_map", "kcount": "kcount", "ksize": "ksize"})
    fn = ctx.need("C12.K", NEW)
    if fn is not None:
        kp = param_index(fn, "ksize")
        call = ("call", c03.MAPS, ("param", kp))
        c03.header_builder(ctx, "C12.K", fn, "oligocgr::new", ("proj", 1, call), ("proj", 2, call), ("param", kp))
        lit = struct_literal(fn, ADT)
        if lit is not None:
            fs = struct_fields(fn, lit)
            # the vector stored as `kmers` is the one the header loop filled
            asg = [x for x in fn.nodes if x.get("k") == "assign" and fn.term(x["l"])[0] == "index"]
            ok = bool(asg) and fs.get("kmers") == fn.term(asg[0]["l"])[1]
            ctx.check("C12.K", "oligocgr::new:kmers_stored", ok, "`kmers` = the rank-ordered text vector",
                      "field `kmers` is `%s`, not the vector filled by rank" % show(fs.get("kmers", ("none",))), line_of(lit))
    fv = ctx.need("C12.Z", ONE)
    if fv is not None:
        zip_rule(ctx, fv)
        c11.midpoint_rule(ctx, "C12.R", "C12.R", ONE, "kmer")
    fs_ = ctx.need("C12.F", S2K)
    if fs_ is not None:
        acc_family(ctx, "C12.F", fs_, "oligocgr::seq_to_kmer", ("param", param_index(fs_, "seq")), SF("norm"))
    fw = ctx.need("C12.O", "composition::oligocgr::OligoCgrComputer::vectorise")
    if fw is not None:
        rule_ordered_collects(ctx, "C12.O", fw, 1)
        rule_sink_sequential(ctx, "C12.O", fw, "oligocgr::vectorise")
        rule_flush_pairing(ctx, "C12.O", fw, "oligocgr::vectorise")
        c11.point_text(ctx, "C12.T", fw, "oligocgr::vectorise", "({},{},{})", 3)
        c11.error_discipline(ctx, "C12.O", fw, "oligocgr::vectorise", ONE)
    c03.maps_rules(dep(ctx, "C12", "C03"), "C03")
    from . import c06
    c06.reader_deps(ctx, "C12")
    from . import c15, c17
    c15.cli_arm_dep(ctx, "C12", ('Cgr',))
    c17.open_rules(dep(ctx, "C12", "C17"))
    rule_threads_default(ctx, "C12.O", "composition::oligocgr::OligoCgrComputer")
    from . import c02
    c02.revcomp_rules(dep(ctx, "C12", "C02"))      # the canonical column set is built with rev_comp: it must be the generator's
    # (x, y) is the chaos-game end point at the requested square size: corner table, centre and constructor of this copy
    mp = c11.ctor_rule(dep(ctx, "C12", "C11"), "C11.C", "composition::oligocgr::OligoCgrComputer::new", ADT)
    if mp is not None:
        c11.table_rule(dep(ctx, "C12", "C11"), "C11.T", mp)
    fsn = ctx.need("C12.O", "composition::oligocgr::OligoCgrComputer::set_norm")
    if fsn is not None:
        ws = [n for n in fsn.nodes if n.get("k") in ("assign", "assignop")]
        ok = len(ws) == 1 and fsn.term(ws[0]["l"]) == SF("norm") and fsn.term(ws[0]["r"]) == ("param", param_index(fsn, "norm"))
        ctx.check("C12.O", "oligocgr::set_norm", ok, "set_norm writes only `norm`", "set_norm writes %s"
                  % [(show(fsn.term(w["l"])), show(fsn.term(w["r"]))) for w in ws], fsn.fn["sp"])


def zip_rule(ctx, fv):
    loops = [l for l in fv.nodes if l.get("k") == "for" and any(y.get("k") == "for" for y in walk(l["body"]))]
    if len(loops) != 1:
        ctx.fail("C12.Z", "vectorise_one:kmer_loop", "outer per-k-mer loop not found", fv.fn["sp"])
        return
    loop = loops[0]
    it = fv.term(loop["iter"])
    sp_ = ("param", param_index(fv, "seq"))
    freqs = ("call", S2K, ("self",), sp_)
    if getattr(ctx.prog, "absorbed_into", {}).get(S2K) == fv.path:
        # seq_to_kmer was merged into this function: the frequencies are the zero-initialised vector it accumulates
        bk = [(lid, b) for lid, b in fv.binds.items() if b["mut"] and b["val"][0] == "node"
              and zero_vec_len(fv.term(b["val"][1]), True) is not None]
        if len(bk) == 1:
            freqs = ("local", bk[0][1]["name"], bk[0][0])
    item0 = ("item", it)
    if it[0] == "call" and it[1].endswith("Iterator::zip"):
        rhs = it[3]
        if rhs[0] == "call" and rhs[1].split("::")[-1] in ("iter", "into_iter") and len(rhs) == 3:
            rhs = rhs[2]               # `.zip(freqs.iter())`, `.zip(freqs)` and `.zip(freqs.into_iter())` walk the same vector
        ok = it[2][0] == "call" and it[2][1].endswith("::iter") and it[2][2] == SF("kmers") and rhs == freqs
        kmer_t, freq_t = ("proj", 0, item0), ("proj", 1, item0)
    else:
        # equivalent: `for (idx, kmer) in self.kmers.iter().enumerate() { let freq = freqs[idx]; .. }`
        X, idx, is_elem = indexed_traversal(it)
        ok = X == SF("kmers") and it[0] == "call" and it[1].endswith("Iterator::enumerate")
        kmer_t, freq_t = ("proj", 1, item0), ("index", freqs, ("proj", 0, item0))
    ctx.check("C12.Z", "vectorise_one:zip", ok, "kmers.iter().zip(seq_to_kmer(seq).iter())",
              "per-k-mer loop iterates `%s`; expected self.kmers.iter().zip(<seq_to_kmer(seq)>.iter()) — columns and "
              "frequencies must be paired in rank order" % show(it), line_of(loop))
    # per k-mer: marker re-initialised inside; one push after the inner loop
    inner = [y for y in walk(loop["body"]) if y.get("k") == "for"][0]
    body = loop["body"]
    seq = body.get("stmts", []) + ([body["expr"]] if body.get("expr") else [])
    lets = [s for s in seq if s.get("k") == "let" and "Mut)" in s["pat"].get("mode", "") and s["pat"].get("ty") == "(f64, f64)"]
    ok1 = len(lets) == 1 and fv.term(lets[0]["init"]) == SF("cgr_center")
    ctx.check("C12.R", "vectorise_one:marker_restarts", ok1, "marker restarts at the centre for every k-mer",
              "the marker is not re-initialised to self.cgr_center inside the per-k-mer loop: coordinates would depend "
              "on the previous k-mers", line_of(loop))
    item = ("item", it)
    pushes = [n for n in walk(body) if n.get("k") == "mcall" and cname(n).endswith("Vec::push")]
    okp = False
    if len(pushes) == 1 and lets:
        idx_inner = next((i for i, s in enumerate(seq) if any(x is inner for x in walk(s))), None)
        idx_push = next((i for i, s in enumerate(seq) if any(x is pushes[0] for x in walk(s))), None)
        mv = ("local", lets[0]["pat"]["name"], lets[0]["pat"]["id"])
        arg = fv.term(pushes[0]["args"][0])
        okp = idx_inner is not None and idx_push is not None and idx_push > idx_inner \
            and arg == ("tup", mv, freq_t) and not any(a is inner for a in fv.ancestors(pushes[0]))
    ctx.check("C12.R", "vectorise_one:one_triple_per_kmer", okp, "push((end point, *freq)) once per k-mer after the base loop",
              "expected exactly one `push((marker, *freq))` after the inner loop, with freq the zipped frequency; found %s"
              % [show(fv.term(p["args"][0])) for p in pushes], line_of(pushes[0]) if pushes else line_of(loop))
    # inner loop runs over the k-mer's text
    iit = fv.term(inner["iter"])
    ctx.check("C12.R", "vectorise_one:kmer_text", iit == kmer_t, "base loop runs over the zipped k-mer text",
              "inner loop iterates `%s`, expected the bytes of the zipped k-mer" % show(iit), line_of(inner))
    res = fv.term(fv.body.get("expr")) if fv.body.get("expr") else ("none",)
    okr = res[0] == "call" and res[1].endswith("::Ok") and pushes and res[2] == fv.term(pushes[0]["recv"])
    ctx.check("C12.Z", "vectorise_one:result", bool(okr), "Ok(triples)", "returns `%s`" % show(res), fv.fn["sp"])
