"""C08 — coverage histogram rows bin each window by its global k-mer multiplicity."""
from .common import *
from . import c07
from .c04 import row_rule

EXPLANATION = (
    "Slot rules on coverage::CovComputer: (B) vectorise_one — key = min(fwd, rev) of "
    "KmerGenerator::new(seq, self.ksize); count = *counts.get(&key).unwrap_or(&0); bin = "
    "min(floor(count/bin_size), bin_count-1); exactly one += 1.0 on the bucket and the total per item; "
    "bucket of bin_count zeroes; guarded normaliser; (T) build_table hands the counter the same ksize, "
    "threads and ceiling, runs count() then merge(true) and never enables ACGT output; (I) records are "
    "read from in_path, counting reads in_path_kmer; (P) counts-file path template and line format "
    "writer = reader; (O) ordered parallel collects, sink written sequentially; (F) push/flush pairing "
    "with the tail flush conditioned only on buffer non-emptiness, loop block and tail block format "
    "rows identically. Does not decide bin contents.")
ASSUMPTIONS = ["C07 (counts table is exact)", "rayon collect order (documented)"]

ONE = "coverage::CovComputer::vectorise_one"
BUILD = "coverage::CovComputer::build_table"
COV = "coverage::CovComputer::compute_coverages"
NEW = "coverage::CovComputer::new"


def run(ctx):
    bin_rule(ctx)
    table_rule(ctx)
    fv = ctx.need("C08.O", COV)
    if fv is not None:
        rule_ordered_collects(ctx, "C08.O", fv, 2)
        rule_sink_sequential(ctx, "C08.O", fv, "compute_coverages")
        rule_flush_pairing(ctx, "C08.F", fv, "compute_coverages")
        blocks_agree(ctx, fv)
        nfmt = number_format_rule(ctx, "C08.R", fv, "compute_coverages", None, SF("norm"))
        if nfmt < 4:
            ctx.fail("C08.R", "compute_coverages:value_formats:floor", "expected 4 value formats (2 blocks x norm/raw), found %d" % nfmt, fv.fn["sp"])
        row_rule(ctx, fv, "compute_coverages", None, "C08.R")
        inputs_rule(ctx, fv)
    # the multiplicities come from the counter and the windows from the k-mer iterator
    c07.run(dep(ctx, "C08", "C07"))
    from . import c15
    c15.cli_arm_dep(ctx, "C08", ("Cov",))
    rule_threads_default(ctx, "C08.T", "coverage::CovComputer")


def bin_rule(ctx):
    fv = ctx.need("C08.B", ONE)
    if fv is None:
        return
    sp = fv.fn["sp"]
    seq_t = ("param", param_index(fv, "seq"))
    counts_t = ("param", param_index(fv, "counts"))
    loops = [l for l in fv.nodes if l.get("k") == "for" and "kmer::kmer::KmerGenerator<" in l.get("iter_ty", "")]
    if len(loops) != 1:
        ctx.fail("C08.B", "vectorise_one:source", "expected one loop over KmerGenerator items", sp)
        return
    loop = loops[0]
    it = fv.term(loop["iter"])
    ctx.check("C08.B", "vectorise_one:source", it == ("call", GEN_NEW, seq_t, SF("ksize")),
              "items of KmerGenerator::new(seq, self.ksize)",
              "k-mers come from `%s`, expected KmerGenerator::new(seq, self.ksize)" % show(it), line_of(loop))
    item = ("item", it)
    key = mk_bin("min", ("proj", 0, item), ("proj", 1, item))
    muts = {lid: b for lid, b in fv.binds.items() if b["mut"] and b["val"][0] == "node"}
    bucket = [(lid, b) for lid, b in muts.items() if zero_vec_len(fv.term(b["val"][1]), True) is not None]
    totals = [(lid, b) for lid, b in muts.items() if fv.term(b["val"][1]) == L(0.0)]
    if len(bucket) != 1 or len(totals) != 1:
        ctx.fail("C08.B", "vectorise_one:bucket", "bucket / total not found", sp)
        return
    bv = ("local", bucket[0][1]["name"], bucket[0][0])
    tv = ("local", totals[0][1]["name"], totals[0][0])
    alloc = fv.term(bucket[0][1]["val"][1])
    ctx.check("C08.B", "vectorise_one:bucket", zero_vec_len(alloc) == SF("bin_count"),
              "bucket = vec![0.0; self.bin_count]", "bucket is `%s`, expected bin_count zeroes" % show(alloc), sp)
    ops = [x for x in walk(loop["body"]) if x.get("k") == "assignop"]
    incs = [x for x in ops if fv.term(x["l"]) != tv]
    tots = [x for x in ops if fv.term(x["l"]) == tv]
    count = ("call", W("uo", lambda s: isinstance(s, str) and s.endswith("unwrap_or")),
             ("call", W("get", lambda s: isinstance(s, str) and s.endswith("HashMap::get")), counts_t, key), L(0))
    ok = False
    detail = "<none>"
    if len(incs) == 1:
        lt = fv.term(incs[0]["l"])
        detail = show(lt)
        idx = None
        if lt[0] == "call" and lt[1].split("::")[-1] in ("get_unchecked_mut",) and lt[2] == bv:
            idx = lt[3]
        elif lt[0] == "index" and lt[1] == bv:
            idx = lt[2]
        if idx is not None and idx[0] == "bin" and idx[1] == "min":
            a, b = idx[2], idx[3]
            clamp = mk_bin("-", SF("bin_count"), L(1))
            if b == clamp:
                a, b = b, a
            if a == clamp:
                # b = (floor(count as f64 / bin_size as f64)) as usize
                t = b
                if t[0] == "cast":
                    t = t[2]
                if t[0] == "call" and t[1].endswith("::floor"):
                    d = t[2]
                    if d[0] == "bin" and d[1] == "/" and d[2][0] == "cast" and d[3] == ("cast", "f64", SF("bin_size")):
                        ok = tmatch(count, d[2][2]) is not None
                elif t[0] == "bin" and t[1] == "/" and t[3] == SF("bin_size"):
                    ok = tmatch(count, t[2]) is not None   # integer division is floor for unsigned
        ok = ok and incs[0]["op"] == "+=" and fv.term(incs[0]["r"]) == L(1.0)
    ctx.check("C08.B", "vectorise_one:bin", ok,
              "bucket[min(floor(count/bin_size), bin_count-1)] += 1.0 with count = counts[min(f,r)] or 0",
              "per-window update is `%s`; expected bucket[min(floor(count / bin_size), bin_count - 1)] += 1.0 with "
              "count = *counts.get(&min(fwd,rev)).unwrap_or(&0)" % detail, line_of(incs[0]) if incs else line_of(loop))
    ctx.check("C08.B", "vectorise_one:total", len(tots) == 1 and tots[0]["op"] == "+=" and fv.term(tots[0]["r"]) == L(1.0),
              "total += 1.0 once per window", "total is not incremented exactly once by 1.0 per window",
              line_of(tots[0]) if tots else line_of(loop))
    branchy = [x for x in walk(loop["body"]) if x.get("k") in ("if", "match", "continue", "break", "ret")
               and not is_value_select(x)]
    ctx.check("C08.B", "vectorise_one:every_item", not branchy, "no window is skipped",
              "conditional control flow inside the binning loop", line_of(branchy[0]) if branchy else None)
    normaliser(ctx, "C08.B", fv, "vectorise_one", SF("norm"), tv, bv)
    res = fv.term(fv.body.get("expr")) if fv.body.get("expr") else ("none",)
    ctx.check("C08.B", "vectorise_one:result", res == bv, "histogram returned", "returns `%s`" % show(res), sp)


def table_rule(ctx):
    fv = ctx.need("C08.T", BUILD)
    if fv is None:
        return
    news = fv.calls_to("counter::CountComputer::new")
    ok = len(news) == 1 and [fv.term(a) for a in news[0]["args"]] == [SF("in_path_kmer"), SF("out_dir"), SF("ksize")]
    ctx.check("C08.T", "build_table:ctor", ok, "CountComputer::new(in_path_kmer, out_dir, ksize)",
              "the counter is built with %s, expected (self.in_path_kmer, self.out_dir, self.ksize)"
              % ([show(fv.term(a)) for a in news[0]["args"]] if news else "?"), line_of(news[0]) if news else fv.fn["sp"])
    def one(path, args, key, txt):
        cs = fv.calls_to(path)
        okc = len(cs) == 1 and [fv.term(a) for a in cs[0]["args"]] == args
        ctx.check("C08.T", "build_table:%s" % key, okc, txt,
                  "expected exactly one `%s`, found %s" % (txt, [[show(fv.term(a)) for a in c["args"]] for c in cs]),
                  line_of(cs[0]) if cs else fv.fn["sp"])
        return cs
    one("counter::CountComputer::set_threads", [SF("threads")], "threads", "ctr.set_threads(self.threads)")
    one("counter::CountComputer::set_max_memory", [SF("memory_ceil_gb")], "memory", "ctr.set_max_memory(self.memory_ceil_gb)")
    c1 = one("counter::CountComputer::count", [], "count", "ctr.count()")
    c2 = one("counter::CountComputer::merge", [L(True)], "merge", "ctr.merge(true)")
    if c1 and c2:
        order = [n for n in fv.nodes if n in (c1[0], c2[0])]
        ctx.check("C08.T", "build_table:order", order and order[0] is c1[0], "count() precedes merge()",
                  "merge() runs before count()", line_of(c2[0]))
    # the table is rebuilt on every run: none of these calls is conditional (no "reuse an existing table" shortcut)
    conditional = [c for c in fv.nodes if c.get("k") in ("call", "mcall") and cname(c).startswith("counter::CountComputer::")
                   and fv.guards(c, with_asserts=True)]
    early = [r for r in fv.nodes if r.get("k") == "ret"]
    ctx.check("C08.T", "build_table:unconditional", not conditional and not early,
              "count() and merge() run unconditionally on every build_table()",
              "build_table() runs the counter only under %s (or returns early): an existing kmers.counts of an earlier "
              "run (other input, other k) would be reused"
              % ([show(fv.term(g)) for g, p in fv.guards(conditional[0])] if conditional else "an early return"),
              line_of(conditional[0]) if conditional else (line_of(early[0]) if early else None))
    acgt = fv.calls_to("counter::CountComputer::set_acgt_output")
    ctx.check("C08.T", "build_table:numeric_keys", not acgt, "ACGT output never enabled (loader parses numeric keys)",
              "build_table enables ACGT output but compute_coverages parses numeric k-mers", line_of(acgt[0]) if acgt else None)
    # same ksize field in the histogram generator (C08.B) — constructor stores the parameter
    fn = ctx.need("C08.T", NEW)
    if fn is not None:
        lit = struct_literal(fn, "coverage::CovComputer")
        fs = struct_fields(fn, lit) if lit else {}
        for f in ("ksize", "bin_size", "bin_count", "out_dir"):
            ctx.check("C08.T", "new:%s" % f, f in fs and is_param(fn, fs[f], f), "%s <- parameter %s" % (f, f),
                      "CovComputer::new stores `%s` into field %s" % (show(fs.get(f, ("none",))), f), line_of(lit) if lit else fn.fn["sp"])
        okp = fs.get("in_path") == fs.get("in_path_kmer") and fs.get("in_path") is not None and is_param(fn, fs["in_path"], "in_path")
        ctx.check("C08.T", "new:paths", okp, "records and counting input default to the same path",
                  "in_path/in_path_kmer are initialised from %s / %s" % (show(fs.get("in_path", ("none",))), show(fs.get("in_path_kmer", ("none",)))),
                  line_of(lit) if lit else fn.fn["sp"])


def inputs_rule(ctx, fv):
    # records from in_path
    news = fv.calls_to("ktio::seq::Sequences::new")
    ok = len(news) == 1 and contains(fv.term(news[0]), lambda s: s == SF("in_path")) \
        and not contains(fv.term(news[0]), lambda s: s == SF("in_path_kmer"))
    ctx.check("C08.I", "compute_coverages:records_from_in_path", ok, "rows are computed for the records of in_path",
              "records are not read from self.in_path", line_of(news[0]) if news else fv.fn["sp"])
    fk = ctx.view("coverage::CovComputer::set_kmer_path")
    if fk is not None:
        ws = [n for n in fk.nodes if n.get("k") == "assign"]
        ok = len(ws) == 1 and fk.term(ws[0]["l"]) == SF("in_path_kmer")
        ctx.check("C08.I", "set_kmer_path:writes", ok, "set_kmer_path writes only in_path_kmer",
                  "set_kmer_path writes %s" % [show(fk.term(w["l"])) for w in ws], fk.fn["sp"])
    else:
        ctx.fail("C08.I", "set_kmer_path:anchor", "set_kmer_path not found")
    # counts path: loader template == counter::merge writer template
    opens = fv.calls_to("std::fs::File::open")
    fm = ctx.view(c07.MERGE)
    wt = None
    if fm is not None:
        cr = fm.calls_to("std::fs::File::create")
        if cr:
            wt = fm.term(cr[0]["args"][0])
    ok = len(opens) == 1 and wt is not None and fv.term(opens[0]["args"][0])[0] == "format" and wt[0] == "format" \
        and fmt_template(fv.term(opens[0]["args"][0])) == fmt_template(wt) \
        and fv.term(opens[0]["args"][0])[2] == (SF("out_dir"),) and wt[2] == (SF("out_dir"),)
    ctx.check("C08.P", "compute_coverages:counts_path", ok, "loader opens the file merge() wrote ({}/kmers.counts of out_dir)",
              "counts table path differs between counter::merge (%s) and the coverage loader (%s)"
              % (show(wt) if wt else "?", show(fv.term(opens[0]["args"][0])) if opens else "?"),
              line_of(opens[0]) if opens else fv.fn["sp"])
    ins = [n for n in fv.nodes if n.get("k") == "mcall" and cname(n).endswith("HashMap::insert")]
    ok = len(ins) == 1 and "u64" in ins[0]["args"][0].get("ty", "") and "u32" in ins[0]["args"][1].get("ty", "")
    ctx.check("C08.P", "compute_coverages:table_insert", ok, "counts.insert(kmer, count)",
              "the loaded table is not filled by insert(<u64 k-mer>, <u32 count>)", line_of(ins[0]) if ins else fv.fn["sp"])
    if ins:
        ll = fv.enclosing(ins[0], ("for", "while", "loop"))
        fe = fv.in_closure_passed_to(ins[0], lambda c: cname(c).endswith("Iterator::for_each"))
        if ll is None and fe is not None:
            # iterator-chain form: lines().map_while(Result::ok).map(parse).for_each(insert) — no filtering adaptor allowed
            chain = []
            cur = fe
            while cur is not None and cur.get("k") == "mcall":
                chain.append(cname(cur).split("::")[-1])
                cur = cur["recv"]
            allowed = {"for_each", "map", "map_while", "lines", "inspect"}
            filt = [c for c in chain if c not in allowed]
            clos = [a for c in [fe] + [x for x in walk(fe["recv"]) if x.get("k") == "mcall"] for a in c.get("args", []) if a.get("k") == "closure"]
            branchy = [x for cl in clos for x in walk(cl) if x.get("k") in ("if", "match", "continue", "break", "ret")]
            if filt:
                branchy = branchy or [fe]
            ll = {"body": fe}
            okl = not branchy
        else:
            branchy = [x for x in walk(ll["body"]) if x.get("k") in ("if", "match", "continue", "break", "ret")
                       and not is_readline_control(x) and not any(is_readline_control(a_) for a_ in fv.ancestors(x))] if ll else [fv.body]
            if ll is not None and ll.get("k") == "for" and ll.get("iter") is not None:
                # the iterator the loop runs over may carry the parsing (`lines().map_while(ok).map(parse)`): no
                # filtering adaptor, no branching closure
                cur = ll["iter"]
                while cur is not None and cur.get("k") == "mcall":
                    if cname(cur).split("::")[-1] not in ("map", "map_while", "lines", "inspect", "into_iter", "iter", "by_ref"):
                        branchy = branchy or [cur]
                    for a in cur.get("args", []):
                        if a.get("k") == "closure":
                            branchy = branchy or [x for x in walk(a) if x.get("k") in ("if", "match", "continue", "break", "ret")]
                    cur = cur.get("recv")
            okl = ll is not None and not branchy and fv.in_closure_passed_to(ins[0], lambda c: True) is None
        ctx.check("C08.P", "compute_coverages:every_line_loaded", okl, "every line of the counts table is inserted unconditionally",
                  "the counts-table loader skips or filters lines (`%s` in the loading loop): a k-mer that occurs in the "
                  "counting input would be treated as absent (bin 0)" % (branchy[0].get("k") if branchy else "?"),
                  line_of(branchy[0]) if branchy and branchy[0] is not fv.body else line_of(ins[0]))
        # the table is this call's: a fresh local map, loaded unconditionally (no cache kept in the computer between runs)
        recv = ins[0]["recv"]
        while recv.get("k") in ("addr",) or (recv.get("k") == "un" and recv.get("op") == "*"):
            recv = recv["e"]
        fresh = False
        if recv.get("k") == "local":
            b_ = fv.binds.get(recv["id"])
            if b_ and b_["val"][0] == "node" and b_["val"][1] is not None:
                it_ = fv.term(b_["val"][1])
                fresh = it_[0] == "call" and it_[1].split("::")[-1] in ("new", "with_capacity", "default") and "HashMap" in it_[1]
        lg = [(show(fv.term(g)), p_) for g, p_ in (fv.guards(ll) if ll is not None and ll.get("k") else fv.guards(ins[0]))]
        ctx.check("C08.P", "compute_coverages:table_fresh", fresh and not lg,
                  "the table is a fresh local HashMap filled unconditionally on every call",
                  "the counts table is %s%s: a table parsed by an earlier call (other input, other k) would be used for "
                  "this run's rows" % ("not a map created in this call" if not fresh else "loaded only under ",
                                       "" if not fresh else str(lg)), line_of(ins[0]))
        # the two fields come from the line in file order: first field -> key, second -> value
        parses = [n for n in walk(ll["body"]) if n.get("k") == "mcall" and cname(n).endswith("::parse")] if ll else []
        if ll is not None and ll.get("k") == "for" and ll.get("iter") is not None and not parses:
            parses = [n for n in walk(ll["iter"]) if n.get("k") == "mcall" and cname(n).endswith("::parse")]
        okf = len(parses) == 2 and "u64" in parses[0].get("ty", "") and "u32" in parses[1].get("ty", "")
        ctx.check("C08.P", "compute_coverages:field_order", okf, "field 1 -> k-mer (u64), field 2 -> count (u32)",
                  "loader parses fields as %s" % [p_.get("ty", "")[:40] for p_ in parses], line_of(ins[0]))
    # vectorise_one receives that table
    ones = fv.calls_to(ONE)
    tabs = set(repr(fv.term(o["args"][1])) for o in ones)
    okt = len(ones) >= 1 and len(tabs) == 1 and ins and fv.term(ones[0]["args"][1]) == fv.term(ins[0]["recv"])
    ctx.check("C08.P", "compute_coverages:table_used", bool(okt), "every row is binned against the loaded table",
              "vectorise_one is not given the table loaded from kmers.counts", line_of(ones[0]) if ones else fv.fn["sp"])
    cr = fv.calls_to("std::fs::File::create")
    okv = len(cr) == 1 and fv.term(cr[0]["args"][0])[0] == "format" and fmt_template(fv.term(cr[0]["args"][0])) == "{}/kmers.vectors" \
        and fv.term(cr[0]["args"][0])[2] == (SF("out_dir"),)
    ctx.check("C08.P", "compute_coverages:vectors_path", okv, "rows go to <out_dir>/kmers.vectors",
              "vectors file is not `{out_dir}/kmers.vectors`", line_of(cr[0]) if cr else fv.fn["sp"])


def blocks_agree(ctx, fv):
    """in-loop flush block and tail block (duplicated code) build rows from equal terms"""
    ws = [n for n in fv.nodes if n.get("k") == "mcall" and cname(n).endswith("Write::write_all")]
    sigs = [repr(alpha_term(fv, w)) for w in ws]
    ctx.check("C08.F", "compute_coverages:blocks_agree", len(ws) == 2 and sigs[0] == sigs[1],
              "the in-loop flush and the tail flush format rows identically",
              "the two duplicated flush blocks of compute_coverages differ (%d writes): rows of the last batch "
              "would be formatted differently from earlier ones" % len(ws), line_of(ws[-1]) if ws else fv.fn["sp"])


def alpha_term(fv, w):
    from ..core import alpha
    return alpha(fv.term(w["args"][0]))
