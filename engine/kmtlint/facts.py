"""Fact extraction (runs the kmt-facts rustc driver over the workspace) and loading.

Nothing of kmertools is executed: the driver stops after analysis
(`cargo check`), and only dumps the type-checked program.
"""
import fcntl
import glob
import hashlib
import json
import os
import re
import shutil
import subprocess
import sys
import time

VERIF = os.path.dirname(os.path.dirname(os.path.dirname(os.path.abspath(__file__))))
DRIVER_DIR = os.path.join(VERIF, "engine", "kmt-facts")
DRIVER = os.path.join(DRIVER_DIR, "target", "release", "kmt-facts")
OUT = os.path.join(VERIF, "out")

MEMBERS = ["composition", "coverage", "kmertools", "kmer", "ktio", "counter",
           "misc", "pybindings", "pip", "conda"]
# (package, crate, crate-type) units the real build has; every one must yield a fact file
EXPECTED_UNITS = [
    ("kmer", "kmer", "lib"), ("ktio", "ktio", "lib"), ("composition", "composition", "lib"),
    ("counter", "counter", "lib"), ("coverage", "coverage", "lib"), ("misc", "misc", "lib"),
    ("kmertools", "kmertools", "lib"), ("kmertools", "kmertools", "bin"),
    ("pybindings", "pybindings", "lib"), ("pip", "pykmertools", "cdylib"),
    ("conda", "pykmertools", "cdylib"),
]


class CheckerError(Exception):
    pass


def repo_root():
    return os.environ.get("KMT_REPO", "/repo")


def tree_key(repo):
    """SHA-256 over every source/manifest file of the working tree."""
    h = hashlib.sha256()
    files = []
    for root, dirs, fs in os.walk(repo):
        rel = os.path.relpath(root, repo)
        dirs[:] = sorted(d for d in dirs
                         if not (rel == "." and d in ("target", ".git", "test_data", "tests")))
        for f in sorted(fs):
            if f.endswith((".rs", ".toml", ".lock")) or f in ("build.rs",):
                files.append(os.path.join(root, f))
    for p in files:
        h.update(os.path.relpath(p, repo).encode())
        h.update(b"\0")
        with open(p, "rb") as fh:
            h.update(fh.read())
        h.update(b"\0")
    # the driver itself is part of the key: new driver => new facts
    try:
        with open(DRIVER, "rb") as fh:
            h.update(hashlib.sha256(fh.read()).digest())
    except OSError:
        pass
    return h.hexdigest()[:24]


def _sysroot_lib():
    out = subprocess.run(["rustc", "+nightly", "--print", "sysroot"], capture_output=True,
                         text=True, cwd=DRIVER_DIR)
    if out.returncode != 0:
        raise CheckerError("cannot find the nightly sysroot: " + out.stderr)
    return os.path.join(out.stdout.strip(), "lib")


def ensure_driver():
    if os.path.exists(DRIVER):
        src = max(os.path.getmtime(p) for p in glob.glob(os.path.join(DRIVER_DIR, "src", "*.rs")))
        if os.path.getmtime(DRIVER) >= src:
            return
    r = subprocess.run(["cargo", "+nightly", "build", "--release", "--offline"], cwd=DRIVER_DIR,
                       capture_output=True, text=True,
                       env=dict(os.environ, CARGO_NET_OFFLINE="true"))
    if r.returncode != 0 or not os.path.exists(DRIVER):
        raise CheckerError("kmt-facts driver does not build:\n" + r.stderr[-3000:])


def extract(repo=None, verbose=False):
    """Return the directory with the fact files of the repo's *current* working tree."""
    repo = repo or repo_root()
    ensure_driver()
    key = tree_key(repo)
    cache_root = os.path.join(OUT, "facts")
    os.makedirs(cache_root, exist_ok=True)
    cdir = os.path.join(cache_root, key)
    marker = os.path.join(cdir, ".complete")
    if os.path.exists(marker):
        return cdir, key, False
    slot = os.environ.get("KMT_TARGET_SLOT", "")          # battery workers: one cargo target directory (and lock) each
    lock = open(os.path.join(cache_root, ".lock" + slot), "w")
    fcntl.flock(lock, fcntl.LOCK_EX)
    try:
        if os.path.exists(marker):
            return cdir, key, False
        if os.path.isdir(cdir):
            shutil.rmtree(cdir)
        os.makedirs(cdir)
        target = os.path.join(OUT, "target" + slot)
        # cargo's freshness cache would skip the wrapper: forget the members' fingerprints
        fp = os.path.join(target, "debug", ".fingerprint")
        if os.path.isdir(fp):
            pat = re.compile(r"^(%s)-[0-9a-f]{16}$" % "|".join(MEMBERS))
            for d in os.listdir(fp):
                if pat.match(d):
                    shutil.rmtree(os.path.join(fp, d), ignore_errors=True)
        env = dict(os.environ)
        env.update({
            "LD_LIBRARY_PATH": _sysroot_lib() + ":" + env.get("LD_LIBRARY_PATH", ""),
            "RUSTFLAGS": "-Zmir-opt-level=0 -Awarnings",
            "RUSTC_WORKSPACE_WRAPPER": DRIVER,
            "CARGO_TARGET_DIR": target,
            "CARGO_NET_OFFLINE": "true",
            "KMT_FACTS_DIR": cdir,
        })
        env.pop("RUSTC_WRAPPER", None)
        t0 = time.time()
        r = subprocess.run(["cargo", "+nightly", "check", "--offline", "--workspace", "--lib",
                            "--bins"], cwd=repo, env=env, capture_output=True, text=True)
        if verbose:
            sys.stderr.write(r.stderr[-2000:])
        if r.returncode != 0:
            shutil.rmtree(cdir, ignore_errors=True)
            raise CheckerError("cargo check of %s failed (the tree does not compile):\n%s"
                               % (repo, r.stderr[-4000:]))
        have = sorted(os.path.basename(p) for p in glob.glob(os.path.join(cdir, "*.json")))
        missing = []
        for pkg, crate, ctype in EXPECTED_UNITS:
            pre = "%s-%s-%s-" % (pkg, crate, ctype)
            if not any(h.startswith(pre) for h in have):
                missing.append(pre)
        if missing:
            shutil.rmtree(cdir, ignore_errors=True)
            raise CheckerError("no fact file for compilation unit(s) %s (have %s)" % (missing, have))
        with open(marker, "w") as fh:
            fh.write(json.dumps({"key": key, "extract_s": round(time.time() - t0, 2),
                                 "files": have}))
        # keep the cache small: drop all but the 48 most recent fact sets (several checks may run concurrently on
        # different trees; a reader that loses its set re-extracts, see load())
        def _mt(d):
            try:
                return os.path.getmtime(d)
            except OSError:          # removed meanwhile by a concurrent run (battery workers hold different locks)
                return 0.0
        sets = sorted((d for d in glob.glob(os.path.join(cache_root, "*")) if os.path.isdir(d)), key=_mt)
        for old in sets[:-48]:
            if old != cdir:
                shutil.rmtree(old, ignore_errors=True)
        return cdir, key, True
    finally:
        fcntl.flock(lock, fcntl.LOCK_UN)
        lock.close()


class Program:
    """All fact files of one extraction, indexed."""

    def __init__(self, fdir, key):
        self.dir = fdir
        self.key = key
        self.units = {}
        self.fns = {}      # (unit, path) -> fn
        self.by_path = {}  # path -> [fn...] (all units)
        self.consts = {}
        self.adts = {}
        self.impls = []
        self.mir = {}
        self.files = []
        for p in sorted(glob.glob(os.path.join(fdir, "*.json"))):
            with open(p) as fh:
                d = json.load(fh)
            unit = os.path.basename(p).rsplit("-", 1)[0]
            d["unit"] = unit
            self.units[unit] = d
            self.files.append(os.path.basename(p))
            for f in d["fns"]:
                f["unit"] = unit
                f["npath"] = norm_path(f["path"])
                f["body"] = normalise_tree(f["body"])
                self.fns[(unit, f["npath"])] = f
                self.by_path.setdefault(f["npath"], []).append(f)
            for c in d["consts"]:
                c["unit"] = unit
                self.consts.setdefault(norm_path(c["path"]), c)
            for a in d["adts"]:
                a["unit"] = unit
                self.adts.setdefault(norm_path(a["path"]), a)
            for i in d["impls"]:
                i["unit"] = unit
                self.impls.append(i)
            for m in d["mir"]:
                m["unit"] = unit
                self.mir.setdefault(unit, []).append(m)
        # helper normal form: functions that are not on the pinned list are inlined into their callers
        from .alias import apply_aliases, apply_field_groups, apply_arg_fields
        from .inline import inline_program
        apply_aliases(self)
        apply_arg_fields(self)
        inline_program(self)
        apply_field_groups(self)       # after expansion: constructor helpers of a new nested struct are literals by now

    def fn(self, path, unit=None):
        """Function by normalised def-path; None when absent."""
        if unit is not None:
            return self.fns.get((unit, path))
        fs = self.by_path.get(path)
        return fs[0] if fs else None

    def n_functions(self):
        return len(self.fns)

    def workspace_fns(self):
        seen = set()
        for (unit, path), f in sorted(self.fns.items()):
            # kmertools lib and bin both contain args.rs; keep one of each path+file
            k = (path, f["sp"])
            if k in seen or path in getattr(self, "absorbed", ()):
                continue
            seen.add(k)
            yield f


_GEN = re.compile(r"::<[^<>]*(?:<[^<>]*(?:<[^<>]*>[^<>]*)*>[^<>]*)*>")
_LT = re.compile(r"<'[a-z_]+>")


def norm_path(p):
    """Drop generic argument lists: `a::B::<'a>::new` -> `a::B::new`,
    `<a::B<'_> as T>::next` -> `<a::B as T>::next`."""
    prev = None
    while prev != p:
        prev = p
        p = _GEN.sub("", p)
    p = _LT.sub("", p)
    # type-position generics inside <X<..> as T>
    out = []
    depth = 0
    i = 0
    # keep the leading "<" of qualified paths: handle `<A<B> as T>::m`
    if p.startswith("<"):
        # find " as "
        body_end = _match_angle(p, 0)
        inner = p[1:body_end]
        rest = p[body_end + 1:]
        if " as " in inner:
            a, b = inner.split(" as ", 1)
            return "<%s as %s>%s" % (_strip_generics(a), _strip_generics(b), rest)
        return "<%s>%s" % (_strip_generics(inner), rest)
    return p


def _match_angle(s, i):
    depth = 0
    for j in range(i, len(s)):
        if s[j] == "<":
            depth += 1
        elif s[j] == ">" and (j == 0 or s[j - 1] != "-"):
            depth -= 1
            if depth == 0:
                return j
    return len(s) - 1


def _strip_generics(s):
    out = []
    depth = 0
    for j, ch in enumerate(s):
        if ch == "<":
            depth += 1
            continue
        if ch == ">" and (j == 0 or s[j - 1] != "-"):
            depth -= 1
            continue
        if depth == 0:
            out.append(ch)
    return "".join(out)


def load(repo=None, verbose=False):
    fdir, key, fresh = extract(repo, verbose)
    try:
        prog = Program(fdir, key)
    except (OSError, ValueError):
        # the cached fact set was evicted by a concurrent run between the check and the read: extract again
        shutil.rmtree(fdir, ignore_errors=True)
        fdir, key, fresh = extract(repo, verbose)
        prog = Program(fdir, key)
    prog.fresh = fresh
    return prog



# --------------------------------------------------------------------------- tree normalisation
# `match e { P => A, Q => B }` (P binding / refutable, Q the complementary unit-like pattern or `_`),
# `if let P = e { A } else { B }` and `let P = e else { B }; A...` are one construct; all become
#     if (let P = e) { A } else { B }
# so that guards, bindings and path enumeration treat them alike.

_UNITLIKE = ("ppath", "pwild")


def _is_complement(p):
    k = p.get("k")
    if k in _UNITLIKE:
        return True
    if k == "ptstruct" and not p.get("ps"):
        return True
    return False


def _binds_something(p):
    k = p.get("k")
    if k == "pbind":
        return True
    for key in ("ps",):
        for x in p.get(key, []) or []:
            if _binds_something(x):
                return True
    if k == "pref":
        return _binds_something(p["pat"])
    for f in p.get("fields", []) or []:
        if _binds_something(f.get("pat", {})):
            return True
    if p.get("sub"):
        return _binds_something(p["sub"])
    return False


def _is_debug_assert(st):
    e = st.get("e") if st.get("k") == "semi" else st
    if not isinstance(e, dict) or e.get("k") != "if" or e.get("else") is not None:
        return False
    if (e.get("mac") or "").split(">")[0] not in ("debug_assert", "debug_assert_eq", "debug_assert_ne"):
        return False
    c = e.get("cond") or {}
    return c.get("k") == "lit" and c.get("lk") == "bool" and (c.get("mac") or "").startswith("$crate::cfg>debug_assert")


def normalise_tree(n):
    if isinstance(n, list):
        return [normalise_tree(x) for x in n]
    if not isinstance(n, dict):
        return n
    for k, v in list(n.items()):
        if isinstance(v, (dict, list)):
            n[k] = normalise_tree(v)
    k = n.get("k")
    # `x = x op e`  ==  `x op= e`
    if k == "assign" and isinstance(n.get("r"), dict) and n["r"].get("k") == "bin" \
            and n["r"].get("op") in ("+", "-", "*", "/", "<<", ">>", "|", "&", "^", "%"):
        if _same_place(n["l"], n["r"]["l"]):
            return {"k": "assignop", "ty": n.get("ty"), "sp": n.get("sp"), "mac": n.get("mac"), "op": n["r"]["op"] + "=",
                    "l": n["l"], "r": n["r"]["r"], "from_assign": True}
        if n["r"]["op"] in ("+", "*", "|", "&", "^") and _same_place(n["l"], n["r"]["r"]):
            return {"k": "assignop", "ty": n.get("ty"), "sp": n.get("sp"), "mac": n.get("mac"), "op": n["r"]["op"] + "=",
                    "l": n["l"], "r": n["r"]["l"], "from_assign": True}
    # unsigned `x % 2^k` == `x & (2^k - 1)`, `x / 2^k` == `x >> k` (also as compound assignment)
    if k in ("bin", "assignop") and n.get("op") in ("%", "/", "%=", "/=") and isinstance(n.get("r"), dict) \
            and n["r"].get("k") == "lit" and isinstance(n["r"].get("v"), int) and not isinstance(n["r"].get("v"), bool):
        v = n["r"]["v"]
        ty = n.get("ty") if k == "bin" else (n.get("l") or {}).get("ty")
        if v > 0 and v & (v - 1) == 0 and ty in ("u8", "u16", "u32", "u64", "u128", "usize"):
            eq = "=" if k == "assignop" else ""
            if n["op"].startswith("%"):
                n = dict(n, op="&" + eq, r=dict(n["r"], v=v - 1), from_pow2=True)
            else:
                n = dict(n, op=">>" + eq, r=dict(n["r"], v=v.bit_length() - 1), from_pow2=True)
    from . import control
    if k == "while":
        r = control.while_let(n)
        if r is not None:
            return r
    if k == "match" and n.get("src", "").startswith("Normal"):
        r = control.merge_guarded_arms(n)
        if r is not None:
            return normalise_tree(r)
        r = control.match_bools(n) or control.match_guards(n) or control.entry_match(n) or control.match_ints(n)
        if r is not None:
            return normalise_tree(r)
    if k == "for":
        r = control.for_ok_else_break(n)
        if r is not None:
            return r
    if k == "mcall":
        r = control.openoptions_create(n)
        if r is not None:
            return r
        r = control.for_each_to_for(n)
        if r is not None:
            return r
        r = control.combinator(n)
        if r is not None:
            return normalise_tree(r)
    if k == "try":
        r = control.try_known(n)
        if r is not None:
            return r
    if k == "match" and len(n.get("arms", [])) == 2 and not n["arms"][0].get("guard") and not n["arms"][1].get("guard") \
            and n.get("src", "").startswith("Normal"):
        a, b = n["arms"]
        pa, pb = a["pat"], b["pat"]
        main = other = None
        if pa.get("k") in ("ptstruct", "pstruct") and _binds_something(pa) and _is_complement(pb):
            main, other = a, b
        elif pb.get("k") in ("ptstruct", "pstruct") and _binds_something(pb) and _is_complement(pa):
            main, other = b, a
        if main is not None:
            return {"k": "if", "ty": n.get("ty"), "sp": n.get("sp"), "mac": n.get("mac"), "from_match": True,
                    "cond": {"k": "letexpr", "ty": "bool", "sp": main["pat"].get("sp", n.get("sp")),
                             "pat": main["pat"], "init": n["e"]},
                    "then": main["body"], "else": other["body"]}
    # `write!(w, ..)` == `w.write_all(format!(..).as_bytes())` (same bytes to the same sink);
    # `write!(s, ..)` on a String == `s.push_str(&format!(..))`
    if k == "mcall" and len(n.get("args", [])) == 1 and norm_path(n.get("callee", "")) in (
            "std::io::Write::write_fmt", "core::fmt::Write::write_fmt", "std::fmt::Write::write_fmt"):
        sp = n.get("sp")
        fmt = {"k": "call", "ty": "std::string::String", "sp": sp, "mac": n.get("mac"), "callee": "alloc::fmt::format",
               "cdk": "Fn", "f": {"k": "def", "dk": "Fn", "path": "alloc::fmt::format", "sp": sp}, "args": n["args"],
               "from_write_fmt": True}
        if norm_path(n["callee"]) == "std::io::Write::write_fmt":
            asb = {"k": "mcall", "ty": "&[u8]", "sp": sp, "name": "as_bytes", "callee": "std::string::String::as_bytes",
                   "recv": fmt, "args": []}
            return dict(n, name="write_all", callee="std::io::Write::write_all", args=[asb], rcallee=None,
                        from_write_fmt=True)
        rty = (n["recv"].get("ty") or "").lstrip("&").replace("mut ", "")
        if rty.endswith("string::String"):
            return dict(n, name="push_str", callee="std::string::String::push_str", rcallee=None,
                        args=[{"k": "addr", "ty": "&str", "sp": sp, "e": fmt}], from_write_fmt=True)
    # `if !c { A } else { B }`  ==  `if c { B } else { A }`
    if k == "if" and isinstance(n.get("cond"), dict) and n["cond"].get("k") == "un" and n["cond"].get("op") == "!" \
            and n.get("else") is not None and n["cond"].get("ty") == "bool":
        n = dict(n, cond=n["cond"]["e"], then=n["else"] if n["else"].get("k") == "block" else
                 {"k": "block", "stmts": [], "expr": n["else"], "sp": n["else"].get("sp"), "ty": n.get("ty")},
                 **{"else": n["then"], "negated_swapped": True})
    if k == "if" and isinstance(n.get("cond"), dict) and n["cond"].get("k") == "letexpr":
        r = _case_of_case(n)
        if r is not None:
            return r
    if k == "block":
        # `debug_assert!(..)` / `debug_assert_eq!(..)` / `debug_assert_ne!(..)`: `if cfg!(debug_assertions) { .. }` is no
        # code in the release configuration the properties speak about; the statement is dropped
        if any(_is_debug_assert(st) for st in n.get("stmts", [])):
            n["stmts"] = [st for st in n["stmts"] if not _is_debug_assert(st)]
        if n.get("expr") is not None and _is_debug_assert(n["expr"]):
            n["expr"] = None
        if control.beta_local_closures(n):
            n["stmts"] = normalise_tree(n["stmts"])
            n["expr"] = normalise_tree(n["expr"]) if n.get("expr") is not None else None
        control.scalarise_struct_local(n)
        control.replace_to_assign(n)
        control.ref_alias(n)
        control.for_from_next_loops(n)
        _distribute_fn_select(n)
        if control.let_of_diverging_if(n):
            n["expr"] = normalise_tree(n["expr"])
        stmts = n.get("stmts", [])
        for i, st in enumerate(stmts):
            if st.get("k") == "let" and st.get("els") is not None and st.get("init") is not None:
                rest = {"k": "block", "sp": st.get("sp"), "stmts": stmts[i + 1:], "expr": n.get("expr")}
                rest = normalise_tree(rest)
                iff = {"k": "if", "ty": n.get("ty", "()"), "sp": st.get("sp"), "from_let_else": True,
                       "cond": {"k": "letexpr", "ty": "bool", "sp": st.get("sp"), "pat": st["pat"], "init": st["init"]},
                       "then": rest, "else": st["els"]}
                n["stmts"] = stmts[:i]
                n["expr"] = iff
                break
    return n



def _fn_leaves(e):
    """leaf nodes of an if/match/block expression when every leaf is a function item; else None"""
    if not isinstance(e, dict):
        return None
    k = e.get("k")
    if k == "def" and str(e.get("dk", "")) in ("Fn", "AssocFn"):
        return [e]
    if k == "cast":
        return _fn_leaves(e.get("e"))
    if k == "block" and not e.get("stmts") and e.get("expr") is not None:
        return _fn_leaves(e["expr"])
    if k == "if" and e.get("else") is not None:
        a, b = _fn_leaves(e["then"]), _fn_leaves(e["else"])
        return a + b if a and b else None
    if k == "match":
        out = []
        for arm in e.get("arms", []):
            if arm.get("guard") is not None:
                return None
            l = _fn_leaves(arm["body"])
            if not l:
                return None
            out += l
        return out
    return None


def _distribute_fn_select(blk):
    """`let run = match p { A => f, B => g }; ... run(args)` (the local is used once, as the callee)
       == `... match p { A => f(args), B => g(args) }`: the call is made in the arm that selected the function."""
    import copy
    stmts = blk.get("stmts", [])
    for i, st in enumerate(stmts):
        if st.get("k") != "let" or st.get("pat", {}).get("k") != "pbind" or "Mut)" in st["pat"].get("mode", "") \
                or st.get("els") is not None:
            continue
        leaves = _fn_leaves(st.get("init"))
        if not leaves or len(leaves) < 2:
            continue
        lid = st["pat"]["id"]
        rest = stmts[i + 1:] + ([blk["expr"]] if blk.get("expr") is not None else [])
        uses, calls = [], []

        def scan(x):
            if isinstance(x, list):
                for y in x:
                    scan(y)
            elif isinstance(x, dict):
                if x.get("k") == "local" and x.get("id") == lid:
                    uses.append(x)
                if x.get("k") == "call" and isinstance(x.get("f"), dict) and x["f"].get("k") == "local" and x["f"].get("id") == lid:
                    calls.append(x)
                for v in x.values():
                    if isinstance(v, (dict, list)):
                        scan(v)
        scan(rest)
        if len(uses) != 1 or len(calls) != 1:
            continue
        call = calls[0]
        sel = copy.deepcopy(st["init"])

        def put(e):
            k = e.get("k")
            if k == "def":
                c = {"k": "call", "ty": call.get("ty"), "sp": call.get("sp"), "callee": e.get("path"), "cdk": e.get("dk"),
                     "f": e, "args": copy.deepcopy(call.get("args", [])), "fn_selected": True}
                if e.get("rpath"):
                    c["rcallee"] = e["rpath"]
                return c
            if k == "cast":
                return put(e["e"])
            if k == "block":
                e["expr"] = put(e["expr"])
                e["ty"] = call.get("ty")
                return e
            if k == "if":
                e["then"], e["else"] = put(e["then"]), put(e["else"])
                e["ty"] = call.get("ty")
                return e
            if k == "match":
                for arm in e["arms"]:
                    arm["body"] = put(arm["body"])
                e["ty"] = call.get("ty")
                return e
            return e
        new = put(sel)
        saved = dict(call)
        call.clear()
        call.update(new)
        call.setdefault("sp", saved.get("sp"))
        del stmts[i]
        blk["stmts"] = stmts
        return _distribute_fn_select(blk)


def _ctor_of(e):
    """(ctor path, [arg nodes]) when e is a constructor application `Some(v)` / `None` / `Ok(v)`, else None"""
    while isinstance(e, dict) and e.get("k") == "block" and not e.get("stmts") and e.get("expr") is not None:
        e = e["expr"]
    if not isinstance(e, dict):
        return None
    if e.get("k") == "def" and str(e.get("dk", "")).startswith("Ctor"):
        return norm_path(e.get("path", "")), []
    if e.get("k") == "call" and str(e.get("cdk", "")).startswith("Ctor"):
        return norm_path(e.get("callee", "")), list(e.get("args", []))
    return None


def _case_of_case(n):
    """`if let P = <init> { T } else { E }` where <init> is not an opaque value but
         a block with statements       -> the statements run first;
         `if c { A } else { B }`       -> `if c { if let P = A {T} else {E} } else { if let P = B {T} else {E} }`;
         a constructor application     -> decided statically (same constructor: bind the sub-patterns, otherwise E).
    Arises when a helper returning Option/Result was expanded at its call site."""
    import copy
    cond = n["cond"]
    pat, init = cond["pat"], cond["init"]
    if not isinstance(init, dict):
        return None
    T, E = n["then"], n.get("else")
    k = init.get("k")
    if k == "block" and init.get("stmts") and not init.get("label"):
        inner = dict(n)
        inner["cond"] = dict(cond, init=init.get("expr"))
        if init.get("expr") is None:
            return None
        return normalise_tree({"k": "block", "ty": n.get("ty"), "sp": n.get("sp"), "stmts": init["stmts"], "expr": inner,
                               "hoisted": True})
    if k == "block" and not init.get("stmts") and init.get("expr") is not None and not init.get("label"):
        inner = dict(n)
        inner["cond"] = dict(cond, init=init["expr"])
        return normalise_tree(inner)
    if k == "if" and init.get("else") is not None:
        a = dict(n)
        a["cond"] = dict(cond, init=init["then"])
        b = copy.deepcopy(dict(n))
        b["cond"] = dict(b["cond"], init=init["else"])
        return {"k": "if", "ty": n.get("ty"), "sp": init.get("sp"), "cond": init["cond"],
                "then": normalise_tree(a), "else": normalise_tree(b), "case_of_case": True}
    c = _ctor_of(init)
    if c is not None and pat.get("k") in ("ptstruct", "ppath"):
        cp, cargs = c
        pp = norm_path(pat.get("path", ""))
        if pp.split("::")[-1] != cp.split("::")[-1]:
            return E if E is not None else {"k": "block", "stmts": [], "expr": None, "ty": "()", "sp": n.get("sp")}
        ps = pat.get("ps", []) or []
        if len(ps) != len(cargs):
            return None
        lets = [{"k": "let", "pat": p_, "init": a_, "sp": p_.get("sp", n.get("sp"))} for p_, a_ in zip(ps, cargs)]
        return {"k": "block", "ty": n.get("ty"), "sp": n.get("sp"), "stmts": lets, "expr": T, "known_ctor": True}
    return None


def _same_place(a, b):
    """structural equality of two place expressions (ignoring spans, types, adjustments)"""
    if not isinstance(a, dict) or not isinstance(b, dict):
        return a == b
    ka, kb = a.get("k"), b.get("k")
    # `*x` vs `x` when auto-deref'd: compare through derefs / refs
    while ka in ("addr",) or (ka == "un" and a.get("op") == "*"):
        a = a["e"]
        ka = a.get("k")
    while kb in ("addr",) or (kb == "un" and b.get("op") == "*"):
        b = b["e"]
        kb = b.get("k")
    if ka != kb:
        return False
    if ka == "local":
        return a.get("id") == b.get("id")
    if ka == "field":
        return a.get("name") == b.get("name") and _same_place(a["e"], b["e"])
    if ka == "index":
        return _same_place(a["e"], b["e"]) and _same_place(a["i"], b["i"])
    if ka == "lit":
        return a.get("v") == b.get("v")
    if ka in ("call", "mcall"):
        if a.get("callee") != b.get("callee"):
            return False
        aa = ([a["recv"]] if ka == "mcall" else []) + list(a.get("args", []))
        bb = ([b["recv"]] if kb == "mcall" else []) + list(b.get("args", []))
        return len(aa) == len(bb) and all(_same_place(x, y) for x, y in zip(aa, bb))
    if ka == "cast":
        return a.get("ty") == b.get("ty") and _same_place(a["e"], b["e"])
    if ka == "def":
        return a.get("path") == b.get("path")
    if ka == "bin":
        return a.get("op") == b.get("op") and _same_place(a["l"], b["l"]) and _same_place(a["r"], b["r"])
    return False
