"""Generic analyses over the typed-HIR fact trees.

A2  term reconstruction (value numbering by substituting immutable single-assignment
    locals, eliding references/derefs/integer casts), with a matcher for term patterns;
A3  polynomial normal form for integer terms;
A4  guard context of a node on the structured control flow;
plus format-template decoding and small tree utilities.
"""
import re
from fractions import Fraction

from .facts import norm_path

# ------------------------------------------------------------------ tree utils

CHILD_KEYS = ("f", "args", "recv", "es", "e", "l", "r", "cond", "then", "else", "body", "arms",
              "init", "stmts", "expr", "i", "fields", "base", "iter", "guard", "els")


def children(n):
    """Yield (key, child-dict) for the direct sub-nodes of a node, in source order."""
    for k in CHILD_KEYS:
        v = n.get(k)
        if v is None:
            continue
        if isinstance(v, dict):
            yield k, v
        elif isinstance(v, list):
            for x in v:
                if isinstance(x, dict):
                    if "k" in x:
                        yield k, x
                    else:
                        # match arm {pat,guard,body} / struct field {name,e}
                        for kk in ("guard", "body", "e"):
                            y = x.get(kk)
                            if isinstance(y, dict):
                                yield kk, y


def walk(n):
    """Pre-order over expression/statement nodes."""
    stack = [n]
    while stack:
        x = stack.pop()
        yield x
        cs = [c for _, c in children(x)]
        stack.extend(reversed(cs))


def line_of(n):
    sp = n.get("sp", "?")
    parts = sp.split(":")
    return ":".join(parts[:2]) if len(parts) >= 2 else sp


INT_TYS = {"u8", "u16", "u32", "u64", "u128", "usize", "i8", "i16", "i32", "i64", "i128", "isize"}


def int_width(ty):
    if ty in ("usize", "isize"):
        return 64
    try:
        return int(ty[1:])
    except ValueError:
        return 64

# callees that return (a view of) their receiver: elided in terms
TRANSPARENT = {
    "std::clone::Clone::clone", "std::borrow::ToOwned::to_owned", "std::convert::AsRef::as_ref",
    "core::str::<impl str>::as_bytes", "core::str::as_bytes", "std::string::String::as_bytes", "std::ops::Deref::deref",
    "std::string::String::as_str", "std::vec::Vec::as_slice", "std::convert::Into::into",
    "std::borrow::Borrow::borrow", "std::ops::DerefMut::deref_mut", "std::hint::must_use",
    "std::convert::From::from", "std::sync::Arc::as_ref",
    "std::option::Option::copied", "std::option::Option::cloned", "std::iter::Iterator::copied",
    "std::iter::Iterator::cloned", "std::option::Option::as_ref", "std::option::Option::as_deref",
}
MIN_FNS = {"std::cmp::min", "std::cmp::Ord::min", "core::cmp::Ord::min", "core::cmp::min"}
MAX_FNS = {"std::cmp::max", "std::cmp::Ord::max", "core::cmp::Ord::max", "core::cmp::max"}
FMAX_FNS = {"std::f64::<impl f64>::max", "core::f64::<impl f64>::max", "f64::max", "core::f64::max", "std::f64::max"}
FMIN_FNS = {"std::f64::<impl f64>::min", "core::f64::<impl f64>::min", "f64::min", "core::f64::min", "std::f64::min"}
COMMUTATIVE = {"+", "*", "&", "|", "^", "==", "!=", "min", "max", "&&", "||"}


def cname(n):
    """Normalised declared callee of a call/mcall node ('' when indirect)."""
    c = n.get("callee")
    return norm_path(c) if c else ""


def rname(n):
    """Normalised *resolved* callee (impl method) when the driver could resolve it."""
    c = n.get("rcallee") or n.get("callee")
    return norm_path(c) if c else ""


def is_call_to(n, *names):
    if n.get("k") not in ("call", "mcall"):
        return False
    c, r = cname(n), rname(n)
    return c in names or r in names


def call_args(n):
    """All arguments incl. receiver."""
    if n.get("k") == "mcall":
        return [n["recv"]] + list(n.get("args", []))
    return list(n.get("args", []))


# ------------------------------------------------------------------ function view

class FnView:
    """One function body with parent links, bindings and lazily computed terms."""

    def __init__(self, prog, fn, inline_lets=True):
        self.prog = prog
        self.fn = fn
        self.inline_lets = inline_lets
        self.let_bound = set()
        self.path = fn["npath"]
        self.body = fn["body"]
        self.parent = {}
        self.key_in_parent = {}
        self.nodes = []
        self.binds = {}       # local id -> dict(name, mut, val (thunk or term), node)
        self.assigned = set()  # local ids that are assigned / &mut-borrowed after binding
        self._tcache = {}
        self._index()

    # -- indexing
    def _index(self):
        stack = [(self.body, None, None)]
        while stack:
            n, par, key = stack.pop()
            self.nodes.append(n)
            if par is not None:
                self.parent[id(n)] = par
                self.key_in_parent[id(n)] = key
            for k, c in reversed(list(children(n))):
                stack.append((c, n, k))
        # parameters
        for i, p in enumerate(self.fn.get("params", [])):
            self._bind(p, ("param", i))
        for n in self.nodes:
            k = n.get("k")
            if k == "let":
                init = n.get("init")
                if n["pat"].get("k") == "pbind":
                    self.let_bound.add(n["pat"]["id"])
                elif n["pat"].get("k") == "ptuple" and init is not None:
                    for sp_ in n["pat"].get("ps", []):
                        if sp_.get("k") == "pbind":
                            self.let_bound.add(sp_["id"])     # `let (a, b) = (x, y);` binds a and b where it stands
                self._bind(n["pat"], ("node", init) if init is not None else ("uninit",))
            elif k == "for":
                self._bind(n["pat"], ("item", n["iter"]))
            elif k == "letexpr":
                self._bind(n["pat"], ("node", n["init"]))
            elif k == "match":
                for arm in n.get("arms", []):
                    self._bind(arm["pat"], ("node", n["e"]))
            elif k == "closure":
                for i, p in enumerate(n.get("params", [])):
                    self._bind(p, ("cparam", n.get("def", ""), i))
            elif k in ("assign", "assignop"):
                b = self._base_local(n["l"])
                if b is not None:
                    self.assigned.add(b)
            elif k == "addr" and n.get("mut"):
                b = self._base_local(n["e"])
                if b is not None:
                    self.assigned.add(b)

    def _base_local(self, n):
        if n.get("k") == "local":
            return n["id"]
        return None

    def _bind(self, pat, val):
        k = pat.get("k")
        if k == "pbind":
            self.binds[pat["id"]] = {"name": pat["name"], "mut": "Mut)" in pat.get("mode", ""),
                                     "val": val, "pat": pat, "ty": pat.get("ty", "")}
            if pat.get("sub"):
                self._bind(pat["sub"], val)
        elif k == "ptuple":
            for i, p in enumerate(pat.get("ps", [])):
                self._bind(p, ("proj", i, val))
        elif k == "ptstruct":
            ps = pat.get("ps", [])
            ctor = norm_path(pat.get("path", "")).split("::")[-1]
            for i, p in enumerate(ps):
                self._bind(p, ("variant", ctor, i, val))
        elif k == "pstruct":
            for f in pat.get("fields", []):
                self._bind(f["pat"], ("pfield", f["name"], val))
        elif k == "pref":
            self._bind(pat["pat"], val)
        elif k == "por":
            for p in pat.get("ps", []):
                self._bind(p, ("opaque", pat.get("sp", "")))
        # pwild / plit / ppath bind nothing

    # -- terms
    def local_is_inlinable(self, lid):
        b = self.binds.get(lid)
        if b is None or b["mut"] or lid in self.assigned:
            return False
        if not self.inline_lets and lid in self.let_bound:
            return False
        v = b["val"]
        return v[0] not in ("uninit",)

    def val_term(self, v, depth):
        t = v[0]
        if t == "node":
            return self.term(v[1], depth + 1)
        if t == "param":
            return ("param", v[1])
        if t == "cparam":
            return ("cparam", v[2])
        if t == "item":
            return ("item", self.term(v[1], depth + 1))
        if t == "proj":
            inner = self.val_term(v[2], depth)
            if inner[0] == "tup" and v[1] < len(inner) - 1:
                return inner[1 + v[1]]
            return ("proj", v[1], inner)
        if t == "variant":
            inner = self.val_term(v[3], depth)
            if inner[0] == "call" and inner[1].split("::")[-1] == v[1] and len(inner) > 2 + v[2]:
                return inner[2 + v[2]]
            if v[1] == "Some" and v[2] == 0 and inner[0] == "call" and inner[1] == SLICE_GET and len(inner) == 4:
                return ("index", inner[2], inner[3])          # the element `s.get(i)` found is s[i]
            return ("variant", v[1], v[2], inner)
        if t == "pfield":
            if str(v[1]).isdigit():
                return ("proj", int(v[1]), self.val_term(v[2], depth))
            return ("field", self.val_term(v[2], depth), v[1])
        return ("opaque",) + tuple(v[1:])

    def term(self, n, depth=0):
        if n is None:
            return ("none",)
        key = id(n)
        if key in self._tcache:
            return self._tcache[key]
        if depth > 60:
            return ("deep",)
        t = self._term(n, depth)
        self._tcache[key] = t
        return t

    def _term(self, n, depth):
        k = n.get("k")
        T = lambda x: self.term(x, depth + 1)
        if k == "lit":
            t_ = lit_term(n)
            if t_ == ("lit", 18446744073709551615):
                return ("const", "core::num::MAX")        # the all-ones 64-bit value however it is spelled
            return t_
        if k == "local":
            lid = n["id"]
            b = self.binds.get(lid)
            if n["name"] == "self":
                return ("self",)
            if b is not None and self.local_is_inlinable(lid):
                return self.val_term(b["val"], depth)
            return ("local", n["name"], lid)
        if k == "def":
            dk = n.get("dk", "")
            p = norm_path(n.get("path", ""))
            if dk.startswith("Const") or dk.startswith("AssocConst") or dk.startswith("Static"):
                c = self.prog.consts.get(p)
                if c is not None and c.get("scalar") is not None and c.get("ty") in INT_TYS:
                    if int(c["scalar"]) == 18446744073709551615:
                        return ("const", "core::num::MAX")    # a named sentinel `const NONE: u64 = u64::MAX`
                    return ("lit", int(c["scalar"]))
                # a named literal (`const MSG: &str = "..."`, `const DEFAULT_MEMORY_GB: f64 = 6.0`) is its value
                cf = self.prog.fn(p) if hasattr(self.prog, "fn") else None
                cb = cf.get("body") if isinstance(cf, dict) else None
                while isinstance(cb, dict) and cb.get("k") == "block" and not cb.get("stmts") and cb.get("expr") is not None:
                    cb = cb["expr"]
                if isinstance(cb, dict) and cb.get("k") == "lit" and cb.get("lk") in ("str", "float", "bool", "char", "int") \
                        and (cf.get("dk") or "").startswith(("Const", "AssocConst")):
                    lt_ = lit_term(cb)
                    if lt_ == ("lit", 18446744073709551615):
                        return ("const", "core::num::MAX")
                    return lt_
                # a small named constant expression (`const FASTQ_SUFFIXES: [&str; 2] = [".fq", ".fastq"]`, a range,
                # a product of literals) is its value; big tables stay symbolic (`bytes` facts are read by the rules)
                if isinstance(cb, dict) and (cf.get("dk") or "").startswith(("Const", "AssocConst")) \
                        and (c is None or (c.get("bytes") is None and c.get("chars") is None)) and depth < 6:
                    cache = self.prog.__dict__.setdefault("_const_terms", {})
                    if p not in cache:
                        cache[p] = None
                        try:
                            ct_ = FnView(self.prog, cf).term(cb)
                            if sum(1 for _ in subterms(ct_)) <= 40 and not contains(
                                    ct_, lambda s_: s_[0] in ("local", "param", "self", "closure", "if", "match")):
                                cache[p] = ct_
                        except Exception:
                            cache[p] = None
                    if cache[p] is not None:
                        return cache[p]
                return ("const", p)
            if dk.startswith("Ctor"):
                return ("ctor", p)
            return ("fn", norm_path(n.get("rpath", "")) or p)
        if k in ("addr",):
            return T(n["e"])
        if k == "un":
            if n["op"] == "*":
                return T(n["e"])
            inner = T(n["e"])
            if n["op"] == "!" and inner == ("lit", 0) and n.get("ty") in ("u8", "u16", "u32", "u64", "u128", "usize"):
                return ("const", "core::num::MAX")       # !0 is the all-ones value of the type: T::MAX
            return ("un", n["op"], inner)
        if k == "cast":
            ty = n.get("ty", "")
            src = n["e"].get("ty", "")
            if ty in INT_TYS and (src in INT_TYS or src == "") and int_width(ty) >= int_width(src or ty):
                return T(n["e"])       # widening / same-width integer casts do not change the value
            return ("cast", ty, T(n["e"]))
        if k == "field":
            if n["name"].isdigit():
                base = T(n["e"])
                i = int(n["name"])
                if base[0] == "tup" and i < len(base) - 1:
                    return base[1 + i]
                return ("proj", i, base)
            return ("field", T(n["e"]), n["name"])
        if k == "index":
            return ("index", T(n["e"]), T(n["i"]))
        if k == "bin":
            if n["op"] == "+" and n.get("ty", "").endswith("string::String"):
                return ("concat", T(n["l"]), T(n["r"]))
            lt_, rt_ = T(n["l"]), T(n["r"])
            if n["op"] in ("%", "/") and n.get("ty") in ("u8", "u16", "u32", "u64", "u128", "usize") \
                    and rt_[0] == "lit" and isinstance(rt_[1], int) and rt_[1] > 0 and rt_[1] & (rt_[1] - 1) == 0:
                # unsigned x % 2^k == x & (2^k - 1), x / 2^k == x >> k
                if n["op"] == "%":
                    return mk_bin("&", lt_, ("lit", rt_[1] - 1))
                return mk_bin(">>", lt_, ("lit", rt_[1].bit_length() - 1))
            UNS = ("u8", "u16", "u32", "u64", "u128", "usize")
            if n["op"] == "!=" and (n["l"].get("ty") in UNS or n["r"].get("ty") in UNS):
                # unsigned x != 0  ==  0 < x
                if rt_ == ("lit", 0):
                    return mk_bin("<", ("lit", 0), lt_)
                if lt_ == ("lit", 0):
                    return mk_bin("<", ("lit", 0), rt_)
            if n["op"] in (">=", "<=") and (n["l"].get("ty") in UNS or n["r"].get("ty") in UNS):
                # x >= 1  ==  0 < x
                if n["op"] == ">=" and rt_ == ("lit", 1):
                    return mk_bin("<", ("lit", 0), lt_)
                if n["op"] == "<=" and lt_ == ("lit", 1):
                    return mk_bin("<", ("lit", 0), rt_)
            return mk_bin(n["op"], lt_, rt_)
        if k == "tup":
            return ("tup",) + tuple(T(x) for x in n.get("es", []))
        if k == "array":
            return ("array",) + tuple(T(x) for x in n.get("es", []))
        if k == "repeat":
            return ("repeat", T(n["e"]))
        if k == "struct":
            fs = tuple(sorted((f["name"], T(f["e"])) for f in n.get("fields", [])))
            return ("struct", norm_path(n.get("adt") or n.get("path", "")), fs)
        if k in ("call", "mcall"):
            fmt = decode_format(self, n, depth)
            if fmt is not None:
                return fmt
            name = cname(n)
            if name in ("std::vec::Vec::len", "alloc::vec::Vec::len"):
                name = "core::slice::len"          # a Vec's length is its slice's length
            args = [T(a) for a in call_args(n)]
            if name.split("::")[-1] == "from" and len(args) == 1 and n.get("k") == "call" and n.get("ty") in NUM_TYS \
                    and (call_args(n)[0].get("ty") or "").lstrip("&") in NUM_TYS:
                # `u64::from(x)` / `f64::from(c)`: the lossless conversion `x as u64` / `c as f64`
                ty_, src_ = n["ty"], call_args(n)[0]["ty"].lstrip("&")
                if ty_ in INT_TYS and src_ in INT_TYS and int_width(ty_) >= int_width(src_):
                    return args[0]
                return ("cast", ty_, args[0])
            if name in TRANSPARENT and len(args) >= 1:
                return args[0]
            if name.split("::")[-1] == "contains" and "RangeInclusive" in name and len(args) == 2 and args[0][0] in ("struct", "call"):
                # `(a..=b).contains(&x)`  ==  `a <= x && x <= b`
                lo = hi = None
                if args[0][0] == "call" and args[0][1].endswith("RangeInclusive::new") and len(args[0]) == 4:
                    lo, hi = args[0][2], args[0][3]
                elif args[0][0] == "struct":
                    f_ = dict(args[0][2])
                    lo, hi = f_.get("start"), f_.get("end")
                if lo is not None and hi is not None:
                    return ("bin", "&&", mk_bin("<=", lo, args[1]), mk_bin("<=", args[1], hi))
            if name.split("::")[-1] in ("any", "all") and name.startswith(("core::iter::", "std::iter::")) and len(args) == 2 \
                    and args[1][0] == "closure":
                # `[a, b, c].iter().any(|x| p(x))`  ==  `p(a) || p(b) || p(c)` for a small literal table
                src = args[0]
                while src[0] == "call" and len(src) == 3 and src[1].split("::")[-1] in ("iter", "into_iter", "copied", "cloned"):
                    src = src[2]
                if src[0] == "array" and 1 <= len(src) - 1 <= 8 and all(e_[0] == "lit" for e_ in src[1:]):
                    body = args[1][1]
                    op = "||" if name.split("::")[-1] == "any" else "&&"
                    parts = [subst(body, {("cparam", 0): e_}) for e_ in src[1:]]
                    acc = parts[0]
                    for p_ in parts[1:]:
                        acc = ("bin", op, acc, p_)
                    return acc
            if name in NONZERO_GET and len(args) == 1 and args[0][0] == "variant" and args[0][1] == "Some" \
                    and args[0][3][0] == "call" and args[0][3][1] in NONZERO_NEW:
                return args[0][3][2]                             # NonZero::new(x).unwrap().get() == x
            if name.endswith("::max_value") and name.startswith("core::num::") and not args:
                return ("const", "core::num::MAX")
            if name.split("::")[-1] == "expect" and len(args) == 2 and ("option::Option" in name or "result::Result" in name):
                # `x.expect("..")` == `x.unwrap()`: the same value, the same panic condition (only the message differs)
                return ("call", name[:-len("expect")] + "unwrap", args[0])
            if name in MIN_FNS or name in FMIN_FNS:
                return mk_bin("min", args[0], args[1])
            if name in MAX_FNS or name in FMAX_FNS:
                return mk_bin("max", args[0], args[1])
            if not name and n.get("k") == "call":
                return ("icall", T(n["f"])) + tuple(args)
            inl = self._inline_pure(rname(n) or name, args, depth)
            if inl is not None:
                return inl
            return ("call", name) + tuple(args)
        if k == "block":
            if n.get("expr") is not None:
                return T(n["expr"])
            return ("unit",)
        if k == "if":
            c_, a_, b_ = T(n["cond"]), T(n["then"]), T(n.get("else"))
            if c_[0] == "bin" and c_[1] in ("<", "<=") and n.get("else") is not None and {a_, b_} == {c_[2], c_[3]} and a_ != b_:
                # `if x < y { x } else { y }` is min(x, y); `if x < y { y } else { x }` is max(x, y)
                return mk_bin("min" if a_ == c_[2] else "max", a_, b_)
            if c_[0] == "iflet" and c_[1][0] == "ptstruct" and c_[1][1].endswith("::Some") and n.get("else") is not None \
                    and a_ == ("variant", "Some", 0, c_[2]) and not contains(b_, lambda s_: s_[0] in ("ret", "break", "continue")):
                return ("call", "std::option::Option::unwrap_or", c_[2], b_)     # value selection == unwrap_or
            return ("if", c_, a_, b_)
        if k == "letexpr":
            it_ = T(n["init"])
            pt_ = pat_term(n["pat"])
            if it_[0] == "call" and it_[1] == SLICE_GET and len(it_) == 4 and pt_[0] == "ptstruct" and pt_[1].endswith("::Some") \
                    and len(pt_) == 3 and pt_[2][0] in ("pbind", "_"):
                # `if let Some(x) = s.get(i)` / `while let ..`  ==  `i < s.len()`
                return mk_bin("<", it_[3], ("call", "core::slice::len", it_[2]))
            if it_[0] == "call" and it_[1] in NONZERO_NEW and len(it_) == 3 and pt_[0] == "ptstruct" \
                    and pt_[1].endswith("::Some") and len(pt_) == 3 and pt_[2][0] in ("pbind", "_"):
                return mk_bin("<", ("lit", 0), it_[2])          # NonZero::new(x) is Some  ==  0 < x (unsigned)
            return ("iflet", pt_, it_)
        if k == "match":
            return ("match", T(n["e"])) + tuple(
                (pat_term(a["pat"]), T(a["body"]) if a.get("guard") is None else ("guarded", T(a["guard"]), T(a["body"])))
                for a in n.get("arms", []))
        if k == "closure":
            return ("closure", T(n["body"]))
        if k == "try":
            return ("try", T(n["e"]))
        if k == "semi":
            return ("unit",)
        if k == "ret":
            return ("ret", T(n.get("e")))
        if k in ("assign", "assignop"):
            return (k, n.get("op", "="), T(n["l"]), T(n["r"]))
        if k in ("loop", "for", "while"):
            return (k, n.get("sp", ""))
        if k == "break":
            return ("break",)
        if k == "continue":
            return ("continue",)
        return ("other", k or "?", n.get("sp", ""))

    def _inline_pure(self, callee, args, depth):
        """A call to a workspace function whose body is one side-effect-free expression (`fn f(&self) -> usize
        { self.w - self.m + 1 }`) is replaced by that expression with the arguments substituted."""
        if depth > 40 or not callee or callee == self.path:
            return None
        f = self.prog.fn(callee)
        if f is None or f.get("mac") or f.get("dk") not in ("Fn", "AssocFn"):
            return None
        body = f.get("body") or {}
        if body.get("k") != "block" or body.get("stmts") or body.get("expr") is None:
            return None
        cache = self.prog.__dict__.setdefault("_pure_cache", {})
        if callee not in cache:
            hv = FnView(self.prog, f)
            t = hv.term(body["expr"])
            ALLOWED = ("bin", "un", "lit", "field", "self", "param", "const", "cast", "proj")
            pure = all(s_[0] in ALLOWED or (s_[0] == "call" and s_[1].endswith("::len")) for s_ in subterms(t))
            pure = pure and t[0] in ("bin", "un", "cast", "call")     # a computation, not a bare getter or constructor
            cache[callee] = (t, [p.get("name") for p in f.get("params", [])]) if pure else None
        ent = cache[callee]
        if ent is None:
            return None
        t, pnames = ent
        env = {}
        for i, a in enumerate(args):
            if i < len(pnames) and pnames[i] == "self":
                env[("self",)] = a
            env[("param", i)] = a
        return subst_plain(t, env)

    def origin(self, n, _depth=0):
        """Follow moves: a local bound (immutably) to another local, to a component of a tuple expression or to the
        tail of a block is the same value as that expression.  Returns the expression node where the value is made
        (a `local` node when it is a mutable / parameter / pattern-bound local)."""
        while n is not None and _depth < 40:
            _depth += 1
            k = n.get("k")
            if k == "block" and n.get("expr") is not None:
                n = n["expr"]
                continue
            if k == "local":
                b = self.binds.get(n["id"])
                if b is None or b["mut"] or n["id"] in self.assigned:
                    return n
                v = b["val"]
                projs = []
                while v[0] == "proj":
                    projs.append(v[1])
                    v = v[2]
                if v[0] != "node" or v[1] is None:
                    return n
                src = v[1]
                ok = True
                for i in reversed(projs):
                    src = self.origin(src, _depth)
                    if src is not None and src.get("k") == "tup" and i < len(src.get("es", [])):
                        src = src["es"][i]
                    else:
                        ok = False
                        break
                if not ok:
                    return n
                n = src
                continue
            return n
        return n

    # -- navigation helpers
    def ancestors(self, n):
        p = self.parent.get(id(n))
        while p is not None:
            yield p
            p = self.parent.get(id(p))

    def enclosing(self, n, kinds):
        for a in self.ancestors(n):
            if a.get("k") in kinds:
                return a
        return None

    def find(self, pred, root=None):
        it = walk(root) if root is not None else iter(self.nodes)
        return [n for n in it if pred(n)]

    def calls_to(self, *names, root=None):
        return self.find(lambda n: is_call_to(n, *names), root)

    def in_closure_passed_to(self, n, pred):
        """Innermost call `c` with pred(c) such that n is inside a closure that is an argument of c."""
        for a in self.ancestors(n):
            if a.get("k") == "closure":
                par = self.parent.get(id(a))
                while par is not None and par.get("k") in ("block", "addr"):
                    par = self.parent.get(id(par))
                if par is not None and par.get("k") in ("call", "mcall") and pred(par):
                    return par
        return None

    def guards_within(self, n, root):
        """guards of n established inside `root` (conditions between root and n)"""
        outer = [(id(c), p) for c, p in self.guards(root)]
        return [(c, p) for c, p in self.guards(n) if (id(c), p) not in outer]

    # -- A4 guard context
    def guards(self, n, with_asserts=True):
        """[(cond_node, polarity)] known to hold at n (structured control flow).
        with_asserts=False leaves out facts established by an earlier `if c { diverge }`."""
        out = []
        cur = n
        for a in self.ancestors(n):
            k = a.get("k")
            key = self.key_in_parent.get(id(cur))
            if k == "if":
                if key == "then":
                    out.append((a["cond"], True))
                elif key == "else":
                    out.append((a["cond"], False))
            elif k == "while" and key == "body":
                out.append((a["cond"], True))
            elif k == "block":
                # earlier sibling `if c { diverge }` without else => !c afterwards
                stmts = list(a.get("stmts", []))
                seq = stmts + ([a["expr"]] if a.get("expr") is not None else [])
                idx = None
                for i, s in enumerate(seq):
                    if s is cur:
                        idx = i
                        break
                if idx is not None and with_asserts:
                    for s in seq[:idx]:
                        out.extend(after_facts(s))
            elif k == "closure":
                # guards outside the closure still hold lexically but not temporally; stop here
                pass
            cur = a
        return [_strip_not(c, p) for c, p in out]


def _strip_not(c, pol):
    """(`!x`, p) == (x, !p): a negated guard left behind by an early exit reads like the positive test"""
    while isinstance(c, dict) and c.get("k") == "un" and c.get("op") == "!" and c.get("ty") == "bool":
        c, pol = c["e"], not pol
    return c, pol


def after_facts(x):
    """[(cond, polarity)] known once statement x has completed normally: `if c { diverge }` leaves !c behind, also when
    the other branch is itself such a statement (`if a { return } else if b { return } else {}`)."""
    if x is None:
        return []
    k = x.get("k")
    if k == "semi":
        return after_facts(x["e"])
    if k == "block":
        out = []
        for s in x.get("stmts", []):
            out.extend(after_facts(s))
        if x.get("expr") is not None:
            out.extend(after_facts(x["expr"]))
        return out
    if k == "if" and x["cond"].get("k") != "letexpr":
        if diverges(x["then"]):
            return [(x["cond"], False)] + after_facts(x.get("else"))
        if x.get("else") is not None and diverges(x["else"]):
            return [(x["cond"], True)] + after_facts(x["then"])
    return []


def diverges(n):
    """Does evaluating n never fall through (ends in return/break/continue/panic)?"""
    if n is None:
        return False
    k = n.get("k")
    if k in ("ret", "break", "continue"):
        return True
    if k == "semi":
        return diverges(n["e"])
    if k == "block":
        for s in n.get("stmts", []):
            if diverges(s):
                return True
        return diverges(n.get("expr"))
    if k == "if":
        return n.get("else") is not None and diverges(n["then"]) and diverges(n["else"])
    if k in ("call", "mcall"):
        c = cname(n)
        if c.startswith("std::rt::begin_panic") or c.startswith("core::panicking::") \
                or c.startswith("std::rt::panic") or c in ("std::process::exit",):
            return True
        if n.get("ty") == "!":
            return True
        return False
    if k == "match":
        arms = n.get("arms", [])
        return bool(arms) and all(diverges(a["body"]) for a in arms)
    return n.get("ty") == "!" and k not in ("loop",)


# ------------------------------------------------------------------ terms

def lit_term(n):
    lk = n.get("lk")
    v = n.get("v")
    if lk == "float":
        try:
            return ("lit", float(str(v).replace("_", "").rstrip("f64").rstrip("f32").rstrip("_")))
        except ValueError:
            return ("lit", v)
    if lk == "bytes":
        return ("lit", bytes(v))
    if lk == "int" and n.get("ty") in ("f64", "f32"):
        return ("lit", float(v))
    return ("lit", v)


SLICE_GET = "core::slice::get"
NUM_TYS = ("u8", "u16", "u32", "u64", "u128", "usize", "i8", "i16", "i32", "i64", "i128", "isize", "f32", "f64")
NONZERO_NEW = ("std::num::NonZero::new", "core::num::NonZero::new", "core::num::nonzero::NonZero::new")
NONZERO_GET = ("std::num::NonZero::get", "core::num::NonZero::get", "core::num::nonzero::NonZero::get")


def mk_bin(op, l, r):
    if op == ">":
        op, l, r = "<", r, l
    elif op == ">=":
        op, l, r = "<=", r, l
    if l[0] == "lit" and r[0] == "lit" and isinstance(l[1], int) and isinstance(r[1], int) \
            and not isinstance(l[1], bool) and not isinstance(r[1], bool):
        if op == "+":
            return ("lit", l[1] + r[1])
        if op == "-" and l[1] >= r[1]:
            return ("lit", l[1] - r[1])
        if op == "*":
            return ("lit", l[1] * r[1])
        if op == "<<" and r[1] < 64:
            return ("lit", l[1] << r[1])
    if op in COMMUTATIVE and repr(r) < repr(l):
        l, r = r, l
    return ("bin", op, l, r)


def pat_term(p):
    k = p.get("k")
    if k == "pbind":
        return ("pbind",)
    if k == "pwild":
        return ("_",)
    if k == "plit":
        return ("plit", lit_term(p)[1])
    if k == "ppath":
        return ("ppath", norm_path(p.get("path", "")))
    if k == "ptstruct":
        return ("ptstruct", norm_path(p.get("path", ""))) + tuple(pat_term(x) for x in p.get("ps", []))
    if k == "ptuple":
        return ("ptuple",) + tuple(pat_term(x) for x in p.get("ps", []))
    if k == "pref":
        return pat_term(p["pat"])
    if k == "pstruct":
        return ("pstruct", norm_path(p.get("path", "")))
    return (k or "p?",)


def show(t, depth=0):
    """Rust-ish rendering of a term for reports."""
    if not isinstance(t, tuple):
        return repr(t)
    if depth > 12:
        return "…"
    S = lambda x: show(x, depth + 1)
    h = t[0]
    if h == "lit":
        return repr(t[1]) if not isinstance(t[1], bool) else str(t[1]).lower()
    if h == "self":
        return "self"
    if h == "local":
        return t[1]
    if h == "param":
        return "param#%d" % t[1]
    if h == "cparam":
        return "arg#%d" % t[1]
    if h == "const":
        return t[1].split("::")[-1]
    if h in ("fn", "ctor"):
        return t[1]
    if h == "field":
        return "%s.%s" % (S(t[1]), t[2])
    if h == "index":
        return "%s[%s]" % (S(t[1]), S(t[2]))
    if h == "bin":
        if t[1] in ("min", "max"):
            return "%s(%s, %s)" % (t[1], S(t[2]), S(t[3]))
        return "(%s %s %s)" % (S(t[2]), t[1], S(t[3]))
    if h == "un":
        return "%s%s" % (t[1], S(t[2]))
    if h == "cast":
        return "(%s as %s)" % (S(t[2]), t[1])
    if h == "call":
        return "%s(%s)" % (t[1].split("::")[-1] if "::" in t[1] else t[1],
                           ", ".join(S(x) for x in t[2:]))
    if h == "tup":
        return "(%s)" % ", ".join(S(x) for x in t[1:])
    if h == "item":
        return "item(%s)" % S(t[1])
    if h == "proj":
        return "%s.%d" % (S(t[2]), t[1])
    if h == "variant":
        if t[1] == "Some" and t[3][0] == "call" and t[3][1].endswith("Iterator::next"):
            return "<taken record>"
        return "%s?%s.%d" % (S(t[3]), t[1], t[2])
    if h == "format":
        return "format(%r; %s)" % (t[1], ", ".join(S(x) for x in t[2]))
    if h == "if":
        return "if %s {%s} else {%s}" % (S(t[1]), S(t[2]), S(t[3]))
    if h == "struct":
        return "%s{%s}" % (t[1].split("::")[-1], ", ".join("%s: %s" % (a, S(b)) for a, b in t[2]))
    return "%s(%s)" % (h, ", ".join(S(x) for x in t[1:]))


def subterms(t):
    if isinstance(t, tuple):
        yield t
        for x in (t[1:] if (t and isinstance(t[0], str)) else t):
            if isinstance(x, tuple):
                yield from subterms(x)
            elif isinstance(x, list):
                for y in x:
                    yield from subterms(y)


def contains(t, pred):
    return any(pred(s) for s in subterms(t))


def alpha(t, _m=None):
    """Rename locals by order of first occurrence (alpha-equivalence for sibling comparison)."""
    m = {} if _m is None else _m
    if not isinstance(t, tuple):
        return t
    if t and t[0] == "local" and len(t) == 3:
        if t[2] not in m:
            m[t[2]] = len(m)
        return ("local", "v%d" % m[t[2]])
    return tuple(alpha(x, m) if isinstance(x, tuple) else x for x in t)


class W:
    """Wildcard in a term pattern; same name must bind equal terms."""

    def __init__(self, name=None, pred=None):
        self.name = name
        self.pred = pred

    def __repr__(self):
        return "?%s" % (self.name or "")


def tmatch(pat, t, env=None):
    """Match term `t` against pattern (terms with W wildcards). Returns env dict or None."""
    env = dict(env or {})
    return _tm(pat, t, env)


def _tm(p, t, env):
    if isinstance(p, W):
        if p.pred is not None and not p.pred(t):
            return None
        if p.name is None:
            return env
        if p.name in env:
            return env if env[p.name] == t else None
        e = dict(env)
        e[p.name] = t
        return e
    if isinstance(p, tuple):
        if not isinstance(t, tuple) or len(p) != len(t):
            return None
        if p and p[0] == "bin" and len(p) == 4 and t[0] == "bin":
            if p[1] != t[1]:
                return None
            e = _tm(p[2], t[2], env)
            if e is not None:
                e2 = _tm(p[3], t[3], e)
                if e2 is not None:
                    return e2
            if p[1] in COMMUTATIVE:
                e = _tm(p[2], t[3], env)
                if e is not None:
                    return _tm(p[3], t[2], e)
            return None
        for a, b in zip(p, t):
            env = _tm(a, b, env)
            if env is None:
                return None
        return env
    if isinstance(p, list):
        if not isinstance(t, list) or len(p) != len(t):
            return None
        for a, b in zip(p, t):
            env = _tm(a, b, env)
            if env is None:
                return None
        return env
    return env if p == t else None


def B(op, l, r):
    """Pattern/term constructor for a binary op (no sorting: the matcher is commutative-aware)."""
    if op == ">":
        op, l, r = "<", r, l
    elif op == ">=":
        op, l, r = "<=", r, l
    return ("bin", op, l, r)


def L(v):
    return ("lit", v)


def SF(name):
    return ("field", ("self",), name)


# ------------------------------------------------------------------ format! decoding

FMT_ARG_CTORS = {
    "core::fmt::rt::Argument::new_display": "display",
    "core::fmt::rt::Argument::new_debug": "debug",
    "core::fmt::rt::Argument::new_lower_exp": "lower_exp",
    "core::fmt::rt::Argument::new_upper_exp": "upper_exp",
    "core::fmt::rt::Argument::new_lower_hex": "lower_hex",
    "core::fmt::rt::Argument::new_upper_hex": "upper_hex",
    "core::fmt::rt::Argument::new_octal": "octal",
    "core::fmt::rt::Argument::new_binary": "binary",
    "core::fmt::rt::Argument::new_pointer": "pointer",
    "core::fmt::rt::Argument::from_usize": "usize",
}


def find_format_args(n):
    """From a call node of format!/write!/println! machinery return the
    `fmt::Arguments::new(template, &args)` call node and its enclosing block."""
    for x in walk(n):
        if x.get("k") == "call" and cname(x) in ("std::fmt::Arguments::new",
                                                 "core::fmt::Arguments::new"):
            return x
        if x.get("k") == "call" and cname(x) in ("std::fmt::Arguments::from_str",
                                                 "core::fmt::Arguments::from_str",
                                                 "std::fmt::Arguments::new_const",
                                                 "core::fmt::Arguments::new_const"):
            return x
    return None


def decode_format(fv, n, depth=0):
    """If n is a `format!(..)` expansion (`std::fmt::format({..Arguments::new(..)})`)
    return ("format", pieces, args) where pieces is a tuple of
    ("lit", str) | ("arg", index, trait, precision, width, flags) and args the
    value terms in placeholder order; otherwise None."""
    if n.get("k") != "call":
        return None
    c = cname(n)
    if c == "std::hint::must_use" and "format" in n.get("mac", ""):
        a = n.get("args", [])
        if a:
            inner = a[0]
            while inner.get("k") == "block" and not inner.get("stmts") and inner.get("expr"):
                inner = inner["expr"]
            return decode_format(fv, inner, depth)
        return None
    if c not in ("std::fmt::format", "alloc::fmt::format"):
        return None
    return decode_arguments(fv, n, depth)


def decode_arguments(fv, n, depth=0):
    an = find_format_args(n)
    if an is None:
        return None
    name = cname(an)
    if name.endswith("from_str") or name.endswith("new_const"):
        a0 = an["args"][0]
        t = fv.term(a0, depth + 1)
        if t[0] == "lit":
            return ("format", (("lit", t[1]),), ())
        if t[0] == "array" and all(x[0] == "lit" for x in t[1:]):
            return ("format", tuple(("lit", x[1]) for x in t[1:]), ())
        return ("format", (("dyn", t),), ())
    tmpl = an["args"][0]
    if tmpl.get("k") == "addr":
        tmpl = tmpl["e"]
    if tmpl.get("lk") != "bytes":
        return None
    tb = bytes(tmpl["v"])
    # the block holding `let args = (&a, &b); let args = [ctor(args.0), ..];`
    blk = None
    for a in fv.ancestors(an):
        if a.get("k") == "block" and any(s.get("k") == "let" for s in a.get("stmts", [])):
            blk = a
            break
    tuple_elems, array_elems = [], []
    if blk is not None:
        lets = [s for s in blk["stmts"] if s.get("k") == "let"]
        for s in lets:
            init = s.get("init") or {}
            if init.get("k") == "tup":
                tuple_elems = init.get("es", [])
            elif init.get("k") == "array":
                array_elems = init.get("es", [])
            elif init.get("k") == "addr" and init["e"].get("k") == "array":
                array_elems = init["e"].get("es", [])
    # array element i: ctor(args.<j>)
    slots = []
    for el in array_elems:
        kind = FMT_ARG_CTORS.get(cname(el), cname(el))
        arg = el["args"][0] if el.get("args") else None
        val = None
        if arg is not None and arg.get("k") == "field" and arg["name"].isdigit() \
                and int(arg["name"]) < len(tuple_elems):
            val = fv.term(tuple_elems[int(arg["name"])], depth + 1)
        elif arg is not None:
            val = fv.term(arg, depth + 1)
        slots.append((kind, val))
    pieces = []
    args = []
    i = 0
    idx = 0
    while i < len(tb):
        b = tb[i]
        i += 1
        if b == 0:
            break
        if b < 0x80:
            pieces.append(("lit", tb[i:i + b].decode("utf-8", "replace")))
            i += b
        elif b == 0x80:
            ln = tb[i] | (tb[i + 1] << 8)
            i += 2
            pieces.append(("lit", tb[i:i + ln].decode("utf-8", "replace")))
            i += ln
        else:
            flags = width = prec = None
            if b & 1:
                flags = int.from_bytes(tb[i:i + 4], "little")
                i += 4
            if b & 2:
                width = int.from_bytes(tb[i:i + 2], "little")
                i += 2
            if b & 4:
                prec = int.from_bytes(tb[i:i + 2], "little")
                i += 2
            if b & 8:
                idx = int.from_bytes(tb[i:i + 2], "little")
                i += 2
            w = None
            if width is not None:
                w = ("arg", slots[width][1]) if (b & 16 and width < len(slots)) else ("lit", width)
            p = None
            if prec is not None:
                p = ("arg", slots[prec][1]) if (b & 32 and prec < len(slots)) else ("lit", prec)
            kind, val = slots[idx] if idx < len(slots) else ("?", ("none",))
            if kind == "display" and p is None and w is None and not flags and val[0] == "lit" and isinstance(val[1], str):
                pieces.append(("lit", val[1]))        # `format!("{}/{}", dir, "kmers.counts")`: a literal argument is template text
            elif kind == "display" and p is None and w is None and not flags and val[0] == "format" and len(val) == 3:
                # `format!("{}{}", prefix, chunk)` with `prefix = format!("{}/part_{}_chunk_", dir, part)`: one template
                for q in val[1]:
                    if q[0] == "arg":
                        pieces.append(("arg", len(args)) + tuple(q[2:]))
                        args.append(val[2][q[1]])
                    else:
                        pieces.append(q)
            else:
                pieces.append(("arg", len(args), kind, p, w, flags))
                args.append(val)
            idx += 1
    merged = []
    for pc in pieces:
        if pc[0] == "lit" and merged and merged[-1][0] == "lit":
            merged[-1] = ("lit", merged[-1][1] + pc[1])
        else:
            merged.append(pc)
    return ("format", tuple(merged), tuple(args))


def fmt_template(ft):
    """Human/equality form of a decoded format: template string with {} placeholders
    carrying trait/precision markers (arguments abstracted)."""
    out = []
    for p in ft[1]:
        if p[0] == "lit":
            out.append(p[1].replace("{", "{{").replace("}", "}}"))
        elif p[0] == "arg":
            spec = ""
            if p[3] is not None:
                spec += ".*" if p[3][0] == "arg" else ".%d" % p[3][1]
            if p[4] is not None:
                spec = ("*" if p[4][0] == "arg" else str(p[4][1])) + spec
            if p[2] == "debug":
                spec += "?"
            elif p[2] != "display":
                spec += p[2]
            out.append("{%s}" % ((":" + spec) if spec else ""))
        else:
            out.append("{dyn}")
    return "".join(out)


# ------------------------------------------------------------------ A3 polynomials

class NotPoly(Exception):
    pass


def poly(t, consts=None, sym=None):
    """Integer term -> {monomial(tuple of sorted symbol names): coeff}.
    Symbols: anything that is not + - * literal/const scalar; rendered by `sym` (default show)."""
    sym = sym or show
    consts = consts or {}

    def P(t):
        h = t[0]
        if h == "lit" and isinstance(t[1], int) and not isinstance(t[1], bool):
            return {(): t[1]}
        if h == "const":
            c = consts.get(t[1])
            if c is not None and c.get("scalar") is not None:
                return {(): int(c["scalar"])}
            return {(sym(t),): 1}
        if h == "bin" and t[1] in ("+", "-", "*"):
            a, b = P(t[2]), P(t[3])
            if t[1] == "+":
                return padd(a, b, 1)
            if t[1] == "-":
                return padd(a, b, -1)
            return pmul(a, b)
        if h == "bin" and t[1] == "<<" and t[3][0] == "lit":
            return pmul(P(t[2]), {(): 1 << t[3][1]})
        if h == "un" and t[1] == "-":
            return padd({}, P(t[2]), -1)
        if h == "cast":
            return P(t[2])
        return {(sym(t),): 1}

    return {m: c for m, c in P(t).items() if c != 0}


def padd(a, b, sign):
    out = dict(a)
    for m, c in b.items():
        out[m] = out.get(m, 0) + sign * c
    return {m: c for m, c in out.items() if c != 0}


def pmul(a, b):
    out = {}
    for m1, c1 in a.items():
        for m2, c2 in b.items():
            m = tuple(sorted(m1 + m2))
            out[m] = out.get(m, 0) + c1 * c2
    return {m: c for m, c in out.items() if c != 0}


def pshow(p):
    if not p:
        return "0"
    parts = []
    for m, c in sorted(p.items()):
        mono = "·".join(m)
        if not m:
            parts.append(str(c))
        elif c == 1:
            parts.append(mono)
        else:
            parts.append("%d·%s" % (c, mono))
    return " + ".join(parts)


# ------------------------------------------------------------------ 2-adic exponent forms
# value = sum c * 2^(a*K + b) over a symbolic K: {(a, b): c}

def pow2form(t, ksym, consts=None):
    """Normalise terms built from literals, K, +,-,*, <<, pow(4|2, K) into
    {(a,b): c} meaning sum c*2^(a*K+b).  `ksym(t)` says whether a term is K.
    Raises NotPoly with the offending operator otherwise."""
    consts = consts or {}

    def lin(t):
        """linear form a*K+b of an exponent / plain integer term -> (a, b)"""
        if ksym(t):
            return (Fraction(1), Fraction(0))
        h = t[0]
        if h == "lit" and isinstance(t[1], int):
            return (Fraction(0), Fraction(t[1]))
        if h == "const":
            c = consts.get(t[1])
            if c is not None and c.get("scalar") is not None:
                return (Fraction(0), Fraction(int(c["scalar"])))
        if h == "cast":
            return lin(t[2])
        if h == "bin" and t[1] in ("+", "-"):
            a1, b1 = lin(t[2])
            a2, b2 = lin(t[3])
            s = 1 if t[1] == "+" else -1
            return (a1 + s * a2, b1 + s * b2)
        if h == "bin" and t[1] == "*":
            a1, b1 = lin(t[2])
            a2, b2 = lin(t[3])
            if a1 == 0:
                return (b1 * a2, b1 * b2)
            if a2 == 0:
                return (a1 * b2, b1 * b2)
        raise NotPoly("not linear in k: %s" % show(t))

    def E(t):
        h = t[0]
        if h == "cast":
            return E(t[2])
        if h == "lit" and isinstance(t[1], int):
            v = t[1]
            if v == 0:
                return {}
            return {(Fraction(0), Fraction(0)): v}
        if h == "bin" and t[1] == "<<":
            base = E(t[2])
            a, b = lin(t[3])
            return {(ea + a, eb + b): c for (ea, eb), c in base.items()}
        if h == "bin" and t[1] in ("+", "-"):
            x, y = E(t[2]), E(t[3])
            s = 1 if t[1] == "+" else -1
            out = dict(x)
            for k2, c in y.items():
                out[k2] = out.get(k2, 0) + s * c
            return {k2: c for k2, c in out.items() if c != 0}
        if h == "bin" and t[1] == "*":
            x, y = E(t[2]), E(t[3])
            out = {}
            for (a1, b1), c1 in x.items():
                for (a2, b2), c2 in y.items():
                    kk = (a1 + a2, b1 + b2)
                    out[kk] = out.get(kk, 0) + c1 * c2
            return {k2: c for k2, c in out.items() if c != 0}
        if h == "call" and t[1].endswith("::pow") and len(t) == 4:
            base = t[2]
            if base[0] == "cast":
                base = base[2]
            if base[0] == "lit" and base[1] in (2, 4):
                a, b = lin(t[3])
                m = 1 if base[1] == 2 else 2
                return {(a * m, b * m): 1}
        raise NotPoly("operator outside the recognised fragment: %s" % show(t))

    return E(t)


def linform(t, ksym, consts=None):
    """a*K + b normal form of an integer term that is linear in K -> (a, b)"""
    consts = consts or {}

    def lin(t):
        if ksym(t):
            return (Fraction(1), Fraction(0))
        h = t[0]
        if h == "lit" and isinstance(t[1], int):
            return (Fraction(0), Fraction(t[1]))
        if h == "const":
            c = consts.get(t[1])
            if c is not None and c.get("scalar") is not None:
                return (Fraction(0), Fraction(int(c["scalar"])))
        if h == "cast":
            return lin(t[2])
        if h == "bin" and t[1] in ("+", "-"):
            a1, b1 = lin(t[2])
            a2, b2 = lin(t[3])
            s = 1 if t[1] == "+" else -1
            return (a1 + s * a2, b1 + s * b2)
        if h == "bin" and t[1] == "*":
            a1, b1 = lin(t[2])
            a2, b2 = lin(t[3])
            if a1 == 0:
                return (b1 * a2, b1 * b2)
            if a2 == 0:
                return (a1 * b2, b1 * b2)
        if h == "bin" and t[1] == "<<" and t[3][0] == "lit":
            a1, b1 = lin(t[2])
            return (a1 * 2 ** t[3][1], b1 * 2 ** t[3][1])
        raise NotPoly("term is not linear in k: %s" % show(t))

    return lin(t)


def is_none(t):
    return t[0] == "ctor" and t[1].endswith("::None")


def some_of(t):
    """x for a term Some(x), else None"""
    if t[0] == "call" and t[1].endswith("::Some") and len(t) == 3:
        return t[2]
    return None


def is_len_of(t, of):
    """t == of.len()"""
    return t[0] == "call" and t[1].endswith("::len") and len(t) == 3 and t[2] == of


def pow2show(f):
    parts = []
    for (a, b), c in sorted(f.items()):
        e = []
        if a:
            e.append("%sk" % (a if a != 1 else ""))
        if b or not e:
            e.append(str(b))
        parts.append("%s·2^(%s)" % (c, "+".join(e)))
    return " + ".join(parts) or "0"


# ------------------------------------------------------------------ A8 structured paths

class TooManyPaths(Exception):
    pass


def enum_paths(root, want, limit=60000, into_closures=False):
    """Enumerate the control-flow paths through `root` (one pass; inner loops are taken
    zero or one time).  Each path is (events, exit): events is a list of
    ("ev", node) for nodes with want(node), ("cond", cond_node, polarity),
    ("arm", match_node, index); exit is ("fall",), ("ret", node),
    ("break", target), ("continue", target) or ("diverge",)."""
    count = [0]

    def seq(parts_list):
        """sequential composition of a list of node-path-lists (lazy cartesian with exits)"""
        acc = [([], ("fall",))]
        for get in parts_list:
            nxt = []
            for ev, ex in acc:
                if ex[0] != "fall":
                    nxt.append((ev, ex))
                    continue
                for ev2, ex2 in get():
                    nxt.append((ev + ev2, ex2))
                    count[0] += 1
                    if count[0] > limit:
                        raise TooManyPaths()
            acc = nxt
        return acc

    def P(n):
        if n is None:
            return [([], ("fall",))]
        k = n.get("k")
        if k == "if":
            out = []
            for ev, ex in P(n["cond"]):
                if ex[0] != "fall":
                    out.append((ev, ex))
                    continue
                for ev2, ex2 in P(n["then"]):
                    out.append((ev + [("cond", n["cond"], True)] + ev2, ex2))
                if n.get("else") is not None:
                    for ev2, ex2 in P(n["else"]):
                        out.append((ev + [("cond", n["cond"], False)] + ev2, ex2))
                else:
                    out.append((ev + [("cond", n["cond"], False)], ("fall",)))
            return out
        if k == "match":
            out = []
            for ev, ex in P(n["e"]):
                if ex[0] != "fall":
                    out.append((ev, ex))
                    continue
                for i, arm in enumerate(n.get("arms", [])):
                    for ev2, ex2 in P(arm["body"]):
                        out.append((ev + [("arm", n, i)] + ev2, ex2))
            return out
        if k in ("loop", "for", "while"):
            lid = n.get("lid")
            head = []
            if k == "for":
                head = P(n["iter"])
            elif k == "while":
                head = P(n["cond"])
            else:
                head = [([], ("fall",))]
            out = []
            for ev, ex in head:
                if ex[0] != "fall":
                    out.append((ev, ex))
                    continue
                if k != "loop":
                    out.append((ev + [("skip", n)], ("fall",)))
                for ev2, ex2 in P(n["body"]):
                    if ex2[0] in ("break", "continue") and (ex2[1] == lid or ex2[1] is None):
                        ex2 = ("fall",)
                    elif ex2[0] == "fall" and k == "loop":
                        ex2 = ("fall",)
                    out.append((ev + [("enter", n)] + ev2 + [("leave", n)], ex2))
            if want(n):
                out = [(ev + [("ev", n)], ex) for ev, ex in out]
            return out
        if k == "ret":
            return [(ev + ([("ev", n)] if want(n) else []), ("ret", n) if ex[0] == "fall" else ex)
                    for ev, ex in P(n.get("e"))]
        if k == "break":
            return [(ev, ("break", n.get("target")) if ex[0] == "fall" else ex)
                    for ev, ex in P(n.get("e"))]
        if k == "continue":
            return [([], ("continue", n.get("target")))]
        if k == "closure" and not into_closures:
            return [([("ev", n)] if want(n) else [], ("fall",))]
        if k == "block":
            parts = [(lambda s=s: P(s)) for s in n.get("stmts", [])]
            if n.get("expr") is not None:
                parts.append(lambda: P(n["expr"]))
            return seq(parts)
        if k in ("call", "mcall") and diverges(n):
            pre = seq([(lambda c=c: P(c)) for _, c in children(n)])
            return [(ev + ([("ev", n)] if want(n) else []), ("diverge",) if ex[0] == "fall" else ex)
                    for ev, ex in pre]
        # generic: children in order, then the node itself
        parts = [(lambda c=c: P(c)) for _, c in children(n)]
        res = seq(parts) if parts else [([], ("fall",))]
        if want(n):
            res = [(ev + [("ev", n)] if ex[0] == "fall" else ev, ex) for ev, ex in res]
        return res

    return P(root)


# ------------------------------------------------------------------ straight-line composition

class Unsupported(Exception):
    pass


def _known_iflet(ct):
    if ct[0] != "iflet" or ct[1][0] != "ptstruct" and ct[1][0] != "ppath":
        return None
    want = ct[1][1].split("::")[-1]
    if want not in ("Some", "None", "Ok", "Err"):
        return None
    v = ct[2]
    got = None
    if v[0] == "call" and len(v) == 3 and v[1].split("::")[-1] in ("Some", "Ok", "Err") and v[1].startswith(("std::prelude", "core::option", "core::result", "std::option", "std::result")):
        got = v[1].split("::")[-1]
    elif v[0] == "ctor" and v[1].split("::")[-1] == "None":
        got = "None"
    if got is None:
        return None
    return got == want


def subst(t, env):
    """Replace tracked variables (keys of env are terms) inside t by their current values."""
    if not isinstance(t, tuple):
        return t
    if t in env:
        return env[t]
    if t[0] == "bin":
        return mk_bin(t[1], subst(t[2], env), subst(t[3], env))
    r = tuple(subst(x, env) if isinstance(x, tuple) else x for x in t)
    if r[0] == "proj" and isinstance(r[2], tuple) and r[2] and r[2][0] == "tup" and isinstance(r[1], int) and r[1] < len(r[2]) - 1:
        return r[2][1 + r[1]]          # a component of a tuple value that is known by now
    if r[0] == "variant" and len(r) == 4 and r[2] == 0 and isinstance(r[3], tuple) and r[3] and r[3][0] == "call" \
            and len(r[3]) == 3 and r[3][1].split("::")[-1] == r[1] and r[1] in ("Some", "Ok", "Err"):
        return r[3][2]                 # the payload of a constructor application that is known by now
    return r


def straightline(fv, stmts, tracked):
    """Compose the assignments of a branch-free statement list over the tracked variables
    (terms such as ("local", name, id) or ("field", ("self",), f)).  Returns
    (state, effects): state maps each tracked variable to its value after the list in terms of the
    values before it; effects is the list of other call terms (with tracked reads substituted)."""
    state = {v: v for v in tracked}
    effects = []

    def ev(n):
        return subst(fv.term(n), {k: v for k, v in state.items() if k != v})

    for s in stmts:
        x = s["e"] if s.get("k") == "semi" else s
        k = x.get("k")
        if k == "let":
            # immutable lets are inlined by term(); a mutable let (re)initialises a tracked local
            pat = x["pat"]
            if pat.get("k") == "pbind":
                v = ("local", pat["name"], pat["id"])
                if v in state and x.get("init") is not None:
                    state[v] = ev(x["init"])
            continue
        if k == "assign":
            lt = fv.term(x["l"])
            if lt in state:
                state[lt] = ev(x["r"])
            else:
                effects.append(("assign", lt, ev(x["r"])))
            continue
        if k == "assignop":
            lt = fv.term(x["l"])
            op = x["op"].rstrip("=")
            if lt in state:
                state[lt] = mk_bin(op, state[lt], ev(x["r"]))
            else:
                effects.append(("assignop", op, lt, ev(x["r"])))
            continue
        if k in ("call", "mcall"):
            effects.append(ev(x))
            continue
        if k == "ret":
            effects.append(("ret", ev(x["e"]) if x.get("e") is not None else ("unit",)))
            break
        if k in ("if", "match", "loop", "for", "while", "break", "continue"):
            raise Unsupported("control flow `%s` in a block expected to be straight-line (%s)"
                              % (k, line_of(x)))
        effects.append(ev(x))
    return state, effects


# ------------------------------------------------------------------ path-wise symbolic composition

def assigned_in(fv, root):
    """terms (fields / locals) assigned anywhere under root, plus receivers mutated through &mut calls"""
    out = set()
    for n in walk(root):
        k = n.get("k")
        if k in ("assign", "assignop"):
            out.add(fv.term(n["l"]))
        elif k == "mcall" and n["recv"].get("aty", "").startswith("&mut "):
            out.add(fv.term(n["recv"]))
        elif k == "let" and n["pat"].get("k") == "pbind" and "Mut)" in n["pat"].get("mode", ""):
            out.add(("local", n["pat"]["name"], n["pat"]["id"]))
    return out


class SymPath:
    __slots__ = ("conds", "state", "exit", "ret", "effects", "events", "view", "value")

    def __init__(self):
        self.conds = []     # [(term evaluated in the state at the test, polarity, node)]
        self.state = {}     # var term -> value term over initial symbols
        self.exit = None
        self.ret = None     # returned term evaluated in the final state
        self.effects = []   # [(callee last name, recv var, args...)] mutating calls in order
        self.events = []


def sym_paths(fv, root, limit=60000):
    """Enumerate paths through `root` (inner loops are atomic: variables they assign become
    ("loopval", name, line)) and compose assignments symbolically along each path.
    Initial values are the variables' own terms (e.g. ("field", ("self",), "pos"))."""
    inner_loops = {}

    def want(n):
        k = n.get("k")
        if k in ("assign", "assignop", "ret"):
            return True
        if k == "let":
            return True
        if k == "mcall" and n["recv"].get("aty", "").startswith("&mut "):
            return True
        return False

    raw = enum_paths_atomic(root, want, limit)
    inl = fv
    fv = FnView(fv.prog, fv.fn, inline_lets=False)   # lets are evaluated where they stand
    # immutable lets evaluated once BEFORE root (e.g. a hoisted `let n = self.w - self.m + 1;`) keep their
    # value through every iteration provided they read nothing that root assigns
    inside = set(id(x) for x in walk(root))
    mutated = assigned_in(inl, root)
    outer = {}
    for n in inl.nodes:
        if n.get("k") == "let" and id(n) not in inside and n["pat"].get("k") == "pbind" and n.get("init") is not None \
                and inl.local_is_inlinable(n["pat"]["id"]):
            t = inl.term(n["init"])
            if not contains(t, lambda s_: s_ in mutated or s_[0] in ("loopval", "ver")):
                outer[("local", n["pat"]["name"], n["pat"]["id"])] = t
    out = []
    for ev, ex in raw:
        sp = SymPath()
        sp.view = fv
        sp.value = None
        st = dict(outer)
        vers = {}

        def cur(t):
            return subst(t, st) if st else t

        feasible = True
        seen_c = {}
        for e in ev:
            if e[0] == "cond":
                ct = cur(fv.term(e[1]))
                # `if let Some(v) = X` where X is, on this path, a known Some(..) / None: decided, not a test
                kn = _known_iflet(ct)
                if kn is not None:
                    if kn != e[2]:
                        feasible = False
                        break
                    continue
                # the same pure term tested twice with opposite outcomes: infeasible path
                if seen_c.get(ct, e[2]) != e[2]:
                    feasible = False
                    break
                seen_c[ct] = e[2]
                sp.conds.append((ct, e[2], e[1]))
            elif e[0] == "arm":
                m, i = e[1], e[2]
                sp.conds.append((("arm", cur(fv.term(m["e"])), pat_term(m["arms"][i]["pat"])), True, m))
            elif e[0] == "val":
                sp.value = cur(fv.term(e[1]))
            elif e[0] == "loop":
                n = e[1]
                if id(n) not in inner_loops:
                    inner_loops[id(n)] = assigned_in(fv, n)
                for v in inner_loops[id(n)]:
                    nm = v[2] if v[0] == "field" else (v[1] if v[0] == "local" else show(v))
                    st[v] = ("loopval", nm, line_of(n))
                sp.events.append(("loop", n))
            elif e[0] == "ev":
                n = e[1]
                k = n.get("k")
                if k == "assign":
                    lt = fv.term(n["l"])
                    st[lt] = cur(fv.term(n["r"]))
                elif k == "assignop":
                    lt = fv.term(n["l"])
                    st[lt] = mk_bin(n["op"].rstrip("="), st.get(lt, lt), cur(fv.term(n["r"])))
                elif k == "let":
                    p = n["pat"]
                    if p.get("k") == "ptuple" and n.get("init") is not None:
                        if n["init"].get("k") in ("if", "match", "block") and sp.value is not None:
                            tv = sp.value           # control expression: the tuple of the branch THIS path took
                            sp.value = None
                        else:
                            tv = cur(fv.term(n["init"]))
                        for i_, sp_ in enumerate(p.get("ps", [])):
                            if sp_.get("k") == "pbind":
                                comp = tv[1 + i_] if tv[0] == "tup" and i_ < len(tv) - 1 else ("proj", i_, tv)
                                st[("local", sp_["name"], sp_["id"])] = comp
                    if p.get("k") == "pbind" and n.get("init") is not None:
                        if n["init"].get("k") in ("if", "match", "block") and sp.value is not None:
                            # the initialiser is a control expression: its value on THIS path is the branch value
                            st[("local", p["name"], p["id"])] = sp.value
                            sp.value = None
                        else:
                            st[("local", p["name"], p["id"])] = cur(fv.term(n["init"]))
                elif k == "mcall":
                    rv = fv.term(n["recv"])
                    name = cname(n).split("::")[-1]
                    args = tuple(cur(fv.term(a)) for a in n.get("args", []))
                    sp.effects.append((name, rv) + args)
                    vers[rv] = vers.get(rv, 0) + 1
                    st[rv] = ("ver", rv, vers[rv], name)
                elif k == "ret":
                    sp.ret = cur(fv.term(n["e"])) if n.get("e") is not None else ("unit",)
                sp.events.append(("ev", n))
        if not feasible:
            continue
        for k_ in outer:
            if st.get(k_) == outer[k_]:
                del st[k_]
        # `x = v` on a path that established `x == v` for the entry value of x leaves x as it was
        for k_, v_ in list(st.items()):
            if k_[0] in ("field", "local") and any(pol_ and t_ == mk_bin("==", k_, v_) for t_, pol_, _n in sp.conds):
                del st[k_]
        sp.state = st
        sp.exit = ex
        out.append(sp)
    return out


def enum_paths_atomic(root, want, limit=60000):
    """enum_paths, but an inner loop is a single ("loop", node) event"""
    count = [0]

    def seq(parts_list):
        acc = [([], ("fall",))]
        for get in parts_list:
            nxt = []
            for ev, ex in acc:
                if ex[0] != "fall":
                    nxt.append((ev, ex))
                    continue
                for ev2, ex2 in get():
                    nxt.append((ev + ev2, ex2))
                    count[0] += 1
                    if count[0] > limit:
                        raise TooManyPaths()
            acc = nxt
        return acc

    CONTROL = ("block", "if", "match", "loop", "for", "while", "ret", "break", "continue")

    def PV(x):
        """paths of a branch / arm body; a bare expression is the value of the branch"""
        if x is None or x.get("k") in CONTROL:
            return P(x)
        return [(ev + [("val", x)] if ex[0] == "fall" else ev, ex) for ev, ex in P(x)]

    def P(n):
        if n is None:
            return [([], ("fall",))]
        k = n.get("k")
        if k == "if":
            out = []
            for ev, ex in P(n["cond"]):
                if ex[0] != "fall":
                    out.append((ev, ex))
                    continue
                for ev2, ex2 in PV(n["then"]):
                    out.append((ev + [("cond", n["cond"], True)] + ev2, ex2))
                if n.get("else") is not None:
                    for ev2, ex2 in PV(n["else"]):
                        out.append((ev + [("cond", n["cond"], False)] + ev2, ex2))
                else:
                    out.append((ev + [("cond", n["cond"], False)], ("fall",)))
            return out
        if k == "match":
            out = []
            for ev, ex in P(n["e"]):
                if ex[0] != "fall":
                    out.append((ev, ex))
                    continue
                for i, arm in enumerate(n.get("arms", [])):
                    for ev2, ex2 in PV(arm["body"]):
                        out.append((ev + [("arm", n, i)] + ev2, ex2))
            return out
        if k in ("loop", "for", "while"):
            return [([("loop", n)], ("fall",))]
        if k == "ret":
            return [(ev + [("ev", n)], ("ret", n) if ex[0] == "fall" else ex) for ev, ex in P(n.get("e"))]
        if k == "break":
            return [(ev, ("break", n.get("target")) if ex[0] == "fall" else ex) for ev, ex in P(n.get("e"))]
        if k == "continue":
            return [([], ("continue", n.get("target")))]
        if k == "closure":
            return [([], ("fall",))]
        if k == "block":
            parts = [(lambda s=s: P(s)) for s in n.get("stmts", [])]
            if n.get("expr") is not None:
                x = n["expr"]
                if x.get("k") in ("block", "if", "match", "loop", "for", "while", "ret", "break", "continue"):
                    parts.append(lambda: P(x))
                else:
                    parts.append(lambda: [(ev + [("val", x)] if ex[0] == "fall" else ev, ex) for ev, ex in P(x)])
            return seq(parts)
        if k == "let":
            res = P(n.get("init")) if n.get("init") is not None else [([], ("fall",))]
            return [(ev + [("ev", n)] if ex[0] == "fall" else ev, ex) for ev, ex in res]
        if k in ("call", "mcall") and diverges(n):
            pre = seq([(lambda c=c: P(c)) for _, c in children(n)])
            return [(ev, ("diverge",) if ex[0] == "fall" else ex) for ev, ex in pre]
        parts = [(lambda c=c: P(c)) for _, c in children(n)]
        res = seq(parts) if parts else [([], ("fall",))]
        if want(n):
            res = [(ev + [("ev", n)] if ex[0] == "fall" else ev, ex) for ev, ex in res]
        return res

    return P(root)



def lift_if(t):
    """Distribute calls over a conditional argument: f(a, if c {x} else {y}, b) == if c {f(a,x,b)} else {f(a,y,b)}
    (the arguments are pure terms).  Applied bottom-up, once per call."""
    if not isinstance(t, tuple):
        return t
    t = tuple(lift_if(x) if isinstance(x, tuple) else x for x in t)
    if t and t[0] == "call":
        for i in range(2, len(t)):
            a = t[i]
            if isinstance(a, tuple) and a and a[0] == "if" and len(a) == 4:
                return ("if", a[1], lift_if(t[:i] + (a[2],) + t[i + 1:]), lift_if(t[:i] + (a[3],) + t[i + 1:]))
    return t


def if_leaves(t):
    """leaf values of a (nested) conditional term"""
    if isinstance(t, tuple) and t and t[0] == "if" and len(t) == 4:
        return if_leaves(t[2]) + if_leaves(t[3])
    return [t]



def subst_plain(t, env):
    if not isinstance(t, tuple):
        return t
    if t in env:
        return env[t]
    if t and t[0] == "bin" and len(t) == 4:
        return mk_bin(t[1], subst_plain(t[2], env), subst_plain(t[3], env))
    return tuple(subst_plain(x, env) if isinstance(x, tuple) else x for x in t)



# ------------------------------------------------------------------ string values as piece lists

def _merge_lits(ps):
    out = []
    for p in ps:
        if p[0] == "lit" and out and out[-1][0] == "lit":
            out[-1] = ("lit", out[-1][1] + p[1])
        elif p[0] == "lit" and p[1] == "":
            continue
        else:
            out.append(p)
    return out


def string_pieces(fv, t, _depth=0):
    """Canonical description of how a String value is put together: a list of ("lit", text) / ("term", t) /
    ("fmt", spec, t) pieces.  Understands format!, `a + b`, `.to_string()` on literals, String::new(), and mutable
    locals that are initialised and then extended with push / push_str (in statement order)."""
    if _depth > 12 or not isinstance(t, tuple):
        return [("term", t)]
    h = t[0]
    if h == "lit" and isinstance(t[1], str):
        return [("lit", t[1])]
    if h == "concat":
        return _merge_lits(string_pieces(fv, t[1], _depth + 1) + string_pieces(fv, t[2], _depth + 1))
    if h == "format":
        out = []
        for p in t[1]:
            if p[0] == "lit":
                out.append(("lit", p[1]))
            elif p[0] == "arg":
                a = t[2][p[1]]
                if p[2] == "display" and p[3] is None and p[4] is None:
                    out.extend(string_pieces(fv, a, _depth + 1) if _is_stringy(a) else [("term", a)])
                else:
                    out.append(("fmt", (p[2], p[3], p[4]), a))
            else:
                out.append(("term", p))
        return _merge_lits(out)
    if h == "call" and t[1].split("::")[-1] in ("to_string", "to_owned", "from", "into") and len(t) == 3 and t[2][0] == "lit" \
            and isinstance(t[2][1], str):
        return [("lit", t[2][1])]
    if h == "call" and t[1].endswith("String::new") and len(t) == 2:
        return []
    if h == "call" and t[1].endswith("String::with_capacity") and len(t) == 3:
        return []                          # the capacity is a hint: an empty string
    if h == "local":
        b = fv.binds.get(t[2])
        if b is not None and b["val"][0] == "node" and b["val"][1] is not None:
            ps = string_pieces(fv, fv.term(b["val"][1]), _depth + 1)
            # appends through &mut self methods, in source order
            decl = next((x for x in fv.nodes if x.get("k") == "let" and x.get("pat", {}).get("k") == "pbind"
                         and x["pat"].get("id") == t[2]), None)
            outer_loops = set(id(a) for a in fv.ancestors(decl)) if decl is not None else set()
            done_loops = set()
            for n in fv.nodes:
                if n.get("k") == "mcall" and n["recv"].get("k") == "local" and n["recv"].get("id") == t[2]:
                    m = cname(n).split("::")[-1]
                    lp = next((a for a in fv.ancestors(n) if a.get("k") == "for" and id(a) not in outer_loops), None)
                    if lp is not None and m in ("push_str", "push"):
                        # the string is extended inside a loop that starts after its declaration: `for v in X { if not
                        # first { s.push_str(D) } s.push_str(&format!(F, v)) }` is X.map(|v| format!(F, v)).join(D)
                        if id(lp) in done_loops:
                            continue
                        done_loops.add(id(lp))
                        jp = _loop_join_piece(fv, t, lp)
                        if jp is None:
                            return [("term", t)]
                        ps = ps + [jp]
                        continue
                    if m == "push_str":
                        ps = ps + string_pieces(fv, fv.term(n["args"][0]), _depth + 1)
                    elif m == "push":
                        a = fv.term(n["args"][0])
                        ps = ps + ([("lit", a[1])] if a[0] == "lit" and isinstance(a[1], str) else [("term", a)])
                    elif m == "clear" and (_unconditional_in_body(fv, n) or _clear_scopes_rest(fv, n, t[2])):
                        ps = []            # a buffer reused per iteration: the value is what follows the clear
                        done_loops.clear()
                    elif m in ("clear", "truncate", "insert", "insert_str", "pop", "remove"):
                        return [("term", t)]
            return _merge_lits(ps)
    return [("term", t)]


def _unconditional_in_body(fv, n):
    """n is a statement of a loop body / closure body / function body block (not nested in a branch)"""
    p = fv.parent.get(id(n))
    if p is not None and p.get("k") == "semi":
        p = fv.parent.get(id(p))
    if p is None or p.get("k") != "block":
        return False
    q = fv.parent.get(id(p))
    return q is None or q.get("k") in ("loop", "for", "while", "closure") or p is fv.body


def _clear_scopes_rest(fv, n, lid):
    """every later extension of the local happens inside the block whose statement the clear is: within that block
    the string is what follows the clear"""
    p = fv.parent.get(id(n))
    if p is not None and p.get("k") == "semi":
        p = fv.parent.get(id(p))
    if p is None or p.get("k") != "block":
        return False
    seen = False
    for x in fv.nodes:
        if x is n:
            seen = True
            continue
        if seen and x.get("k") == "mcall" and x["recv"].get("k") == "local" and x["recv"].get("id") == lid \
                and cname(x).split("::")[-1] in ("push", "push_str", "clear", "truncate", "insert", "insert_str", "pop", "remove"):
            if not any(a is p for a in fv.ancestors(x)):
                return False
    return seen


def _loop_join_piece(fv, loc, lp):
    lid = loc[2]
    pushes = [x for x in walk(lp["body"]) if x.get("k") == "mcall" and x["recv"].get("k") == "local"
              and x["recv"].get("id") == lid]
    if any(cname(x).split("::")[-1] not in ("push_str", "push", "is_empty", "len", "reserve", "capacity") for x in pushes):
        return None
    pushes = [x for x in pushes if cname(x).split("::")[-1] in ("push_str", "push")]
    it = fv.term(lp["iter"])
    item = ("item", it)
    src, elem_v, idx_v = it, item, None
    if it[0] == "call" and it[1].endswith("Iterator::enumerate") and len(it) == 3:
        src, elem_v, idx_v = it[2], ("proj", 1, item), ("proj", 0, item)
    sep, elems = [], []
    for x in pushes:
        gs = [(fv.term(g), pol) for g, pol in fv.guards_within(x, lp)]
        if not gs:
            elems.append(x)
            continue
        if len(gs) == 1:
            g, pol = gs[0]
            not_first = (pol and idx_v is not None and g == mk_bin("<", ("lit", 0), idx_v)) or \
                (not pol and idx_v is not None and g == mk_bin("==", idx_v, ("lit", 0))) or \
                (not pol and g[0] == "call" and g[1].endswith("::is_empty") and len(g) == 3 and g[2] == loc)
            if not_first:
                sep.append(x)
                continue
            continue                     # guarded by something else: judged below (a two-way choice of the element)
        return None
    def pushed(x):
        a = fv.term(x["args"][0])
        return a
    sel = None
    if not elems and len(sep) <= 1:
        # the element is written by one of two pushes chosen by a condition: `if c { push A } else { push B }`
        rest = [x for x in pushes if x not in sep]
        gl = [[(fv.term(g), pol) for g, pol in fv.guards_within(x, lp)] for x in rest]
        if len(rest) == 2 and all(len(g) == 1 for g in gl) and gl[0][0][0] == gl[1][0][0] and gl[0][0][1] != gl[1][0][1]:
            a_, b_ = (rest[0], rest[1]) if gl[0][0][1] else (rest[1], rest[0])
            sel = ("if", gl[0][0][0], pushed(a_), pushed(b_))
            elems = [a_]
    if len(elems) != 1 or len(sep) > 1:
        return None
    order = {id(x): i for i, x in enumerate(walk(lp["body"]))}
    if sep and order[id(sep[0])] > order[id(elems[0])]:
        return None                      # separator after the element would be a trailing one
    d = pushed(sep[0]) if sep else ("lit", "")
    e = subst(sel if sel is not None else pushed(elems[0]), {elem_v: ("cparam", 0)})
    if contains(e, lambda s_: s_ == item or s_ == loc):
        return None
    mapped = ("call", "core::iter::Iterator::collect", ("call", "core::iter::Iterator::map", src, ("closure", e)))
    return ("term", ("call", "alloc::slice::join", mapped, d))


def _is_stringy(t):
    return t[0] in ("concat", "format") or (t[0] == "lit" and isinstance(t[1], str)) or \
        (t[0] == "call" and t[1].split("::")[-1] in ("join", "concat", "to_string", "to_owned"))
