"""Helper normal form: calls to workspace functions that did not exist on the pinned tree are inlined.

The rules are anchored at the functions of the pinned tree (`known_items.json`: their def-paths, nothing else).
Maintenance refactorings routinely move a stretch of such a function into a new private helper (`render_batch`,
`close_run`, `number_record`, `run_oligo`, `with_threads(n, |t| ..)`, a constructor stage ...).  The behaviour is
that of the function with the helper's body in place of the call, so that is the form the rules are given:

  * a call `h(a1..an)` / `recv.h(a1..an)` whose resolved callee is a workspace `fn` NOT in the pinned list is
    replaced by `{ let p_i = a_i; ...; body }`, with the helper's locals, loop labels and break targets renumbered;
    parameters bound to a place expression (`self`, `&mut self.x`, `&buffer`, a local) or a literal are substituted
    instead of let-bound, so that `self.field` in the helper is the caller's `self.field`;
  * early `return`s of the helper are eliminated structurally first (`if c { return a } rest` -> `if c { a } else
    { rest }`; the same under `match` arms and `let .. else`); a helper that returns from inside a loop is left as a
    call (the rules then judge the call as before);
  * a closure literal passed for a parameter that the helper calls exactly once is beta-reduced at that call;
  * helpers are inlined transitively (depth <= 6), never recursively.

New functions stay in the program as well (rules that range over *all* functions — purity, who-may-call, decoder
choice — still see them).  Nothing here depends on names or text of the helper.
"""
import copy
import json
import os

HERE = os.path.dirname(os.path.abspath(__file__))
KNOWN_FILE = os.path.join(HERE, "known_items.json")

_CHILD_KEYS = ("f", "args", "recv", "es", "e", "l", "r", "cond", "then", "else", "body", "arms",
               "init", "stmts", "expr", "i", "fields", "base", "iter", "guard", "els", "pat", "params", "ps", "sub")


def load_known():
    with open(KNOWN_FILE) as fh:
        return set(json.load(fh)["fns"])


def _walk_all(n):
    """every dict below n (expression, statement and pattern nodes, arms, struct fields)"""
    stack = [n]
    while stack:
        x = stack.pop()
        if isinstance(x, dict):
            yield x
            for v in x.values():
                if isinstance(v, (dict, list)):
                    stack.append(v)
        elif isinstance(x, list):
            stack.extend(x)


def _renumber(tree, off):
    for x in _walk_all(tree):
        k = x.get("k")
        if k in ("local", "pbind") and isinstance(x.get("id"), int):
            x["id"] += off
        if k in ("loop", "for", "while") and isinstance(x.get("lid"), int):
            x["lid"] += off
        if k in ("break", "continue") and isinstance(x.get("target"), int):
            x["target"] += off


def _has_ret(n):
    """a `return` that belongs to this function body (not to a closure inside it)"""
    stack = [n]
    while stack:
        x = stack.pop()
        if isinstance(x, dict):
            if x.get("k") == "closure":
                continue
            if x.get("k") == "ret":
                return True
            for key, v in x.items():
                if key in ("pat", "params"):
                    continue
                if isinstance(v, (dict, list)):
                    stack.append(v)
        elif isinstance(x, list):
            stack.extend(x)
    return False


class _NoElim(Exception):
    pass


def _as_block(n):
    if n is None:
        return {"k": "block", "stmts": [], "expr": None}
    if n.get("k") == "block" and not n.get("label"):
        return n
    return {"k": "block", "stmts": [], "expr": n, "sp": n.get("sp"), "ty": n.get("ty")}


def _mark_ret(val, ret):
    """the value that stands where a `return` of the expanded helper stood (rules about early exits look for it)"""
    if val is None:
        val = {"k": "tup", "es": [], "ty": "()", "sp": ret.get("sp")}
    val["was_ret"] = True
    return val


def _elim_block(stmts, expr, cont, rty, sp):
    """Return a block computing the function result for `stmts; expr` followed by the continuation `cont`
    ((stmts, expr) or None = this is the tail: the block's value is the result)."""
    stmts = list(stmts)
    for i, st in enumerate(stmts):
        if not _has_ret(st):
            continue
        x = st["e"] if st.get("k") == "semi" else st
        rest_s, rest_e = stmts[i + 1:], expr
        if x.get("k") == "ret":
            val = x.get("e")
            if val is not None and _has_ret(val):
                raise _NoElim()
            return {"k": "block", "stmts": stmts[:i], "expr": _mark_ret(val, x), "ty": rty, "sp": sp, "ret_elim": True}
        new = _elim_branching(x, (rest_s, rest_e, cont), rty)
        return {"k": "block", "stmts": stmts[:i], "expr": new, "ty": rty, "sp": sp, "ret_elim": True}
    # no statement returns
    if expr is not None and _has_ret(expr):
        if expr.get("k") == "ret":
            val = expr.get("e")
            if val is not None and _has_ret(val):
                raise _NoElim()
            return {"k": "block", "stmts": stmts, "expr": _mark_ret(val, expr), "ty": rty, "sp": sp, "ret_elim": True}
        new = _elim_branching(expr, cont, rty)
        return {"k": "block", "stmts": stmts, "expr": new, "ty": rty, "sp": sp, "ret_elim": True}
    if cont is None:
        return {"k": "block", "stmts": stmts, "expr": expr, "ty": rty, "sp": sp}
    # fall through into the continuation
    cs, ce, cc = cont
    if expr is not None:
        stmts = stmts + [{"k": "semi", "e": expr, "sp": expr.get("sp")}]
    return _elim_block(stmts + copy.deepcopy(cs), copy.deepcopy(ce), cc, rty, sp)


def _elim_branching(x, cont, rty):
    """x is an `if` / `match` / block statement containing a return; cont = (stmts, expr, outer_cont) or None."""
    k = x.get("k")

    def branch(b):
        blk = _as_block(b)
        return _elim_block(blk.get("stmts", []), blk.get("expr"), cont, rty, blk.get("sp") or x.get("sp"))
    if k == "if":
        if _has_ret(x["cond"]):
            raise _NoElim()
        out = dict(x)
        out["ty"] = rty
        out["then"] = branch(x["then"])
        out["else"] = branch(x.get("else"))
        return out
    if k == "match":
        if _has_ret(x["e"]):
            raise _NoElim()
        out = dict(x)
        out["ty"] = rty
        arms = []
        for a in x.get("arms", []):
            if a.get("guard") is not None and _has_ret(a["guard"]):
                raise _NoElim()
            a2 = dict(a)
            a2["body"] = branch(a["body"])
            arms.append(a2)
        out["arms"] = arms
        return out
    if k == "block" and not x.get("label"):
        return branch(x)
    raise _NoElim()


def eliminate_returns(body, rty):
    """body with all (non-closure) returns turned into values; None when that is not possible structurally."""
    if not _has_ret(body):
        return body
    blk = _as_block(body)
    try:
        return _elim_block(blk.get("stmts", []), blk.get("expr"), None, rty, blk.get("sp"))
    except _NoElim:
        return None


# ------------------------------------------------------------------ substitution

def _is_place(a):
    """argument expressions that may be substituted for the parameter (no evaluation, or evaluation without effect)"""
    k = a.get("k")
    if k in ("local", "lit", "def"):
        return True
    if k == "addr":
        return _is_place(a["e"])
    if k == "un" and a.get("op") == "*":
        return _is_place(a["e"])
    if k == "field":
        return _is_place(a["e"])
    return False


def _strip_addr(e):
    while isinstance(e, dict) and e.get("k") == "addr":
        e = e["e"]
    return e


def _replace_locals(tree, env):
    """replace `local` nodes whose id is in env by a copy of env[id]; tidy `(&x).m()` / `*(&x)` / `(&x).f`"""
    def R(n):
        if isinstance(n, list):
            return [R(x) for x in n]
        if not isinstance(n, dict):
            return n
        if n.get("k") == "local" and n.get("id") in env:
            rep = copy.deepcopy(env[n["id"]])
            return rep
        for key, v in list(n.items()):
            if isinstance(v, (dict, list)):
                n[key] = R(v)
        k = n.get("k")
        if k == "mcall" and isinstance(n.get("recv"), dict) and n["recv"].get("k") == "addr":
            n["recv"] = _strip_addr(n["recv"])
        elif k == "un" and n.get("op") == "*" and n["e"].get("k") == "addr":
            return _strip_addr(n["e"])
        elif k in ("field", "index") and n["e"].get("k") == "addr":
            n["e"] = _strip_addr(n["e"])
        elif k in ("assign", "assignop") and isinstance(n.get("l"), dict) and n["l"].get("k") == "addr":
            n["l"] = _strip_addr(n["l"])
        return n
    return R(tree)


def _uses(tree, lid):
    return [x for x in _walk_all(tree) if x.get("k") == "local" and x.get("id") == lid]


def _beta(tree, lid, clo):
    """the single use of local `lid` is as callee of a call: replace the call by the closure body"""
    done = [False]

    def R(n):
        if isinstance(n, list):
            return [R(x) for x in n]
        if not isinstance(n, dict):
            return n
        if n.get("k") == "call" and isinstance(n.get("f"), dict) and _strip_addr(n["f"]).get("k") == "local" \
                and _strip_addr(n["f"]).get("id") == lid and not done[0]:
            c = copy.deepcopy(clo)
            params = c.get("params", [])
            args = [R(a) for a in n.get("args", [])]
            if len(params) != len(args):
                return n
            done[0] = True
            env, lets = {}, []
            for p, a in zip(params, args):
                if p.get("k") == "pbind" and "Mut)" not in p.get("mode", "") and not p.get("sub") and _is_place(a):
                    env[p["id"]] = a
                else:
                    lets.append({"k": "let", "pat": p, "init": a, "sp": n.get("sp")})
            body = _replace_locals(c["body"], env) if env else c["body"]
            return {"k": "block", "stmts": lets, "expr": body, "ty": n.get("ty"), "sp": n.get("sp"), "beta": True}
        for key, v in list(n.items()):
            if isinstance(v, (dict, list)):
                n[key] = R(v)
        return n
    out = R(tree)
    return out if done[0] else None


# ------------------------------------------------------------------ the pass

class Inliner:
    def __init__(self, prog, known):
        self.prog = prog
        self.known = known
        self.counter = 0
        self.inlined = []          # (caller, helper)
        self.kept = []             # (caller, helper, reason)
        self.helpers = {}
        for (unit, path), f in prog.fns.items():
            if path not in known and f.get("dk") in ("Fn", "AssocFn") and isinstance(f.get("body"), dict):
                self.helpers[(unit, path)] = f
        self._done = {}

    def helper_for(self, unit, n):
        from .facts import norm_path
        for key in ("rcallee", "callee"):
            p = n.get(key)
            if not p:
                continue
            p = norm_path(p)
            h = self.helpers.get((unit, p))
            if h is None:
                hs = [f for (u, q), f in self.helpers.items() if q == p]
                h = hs[0] if hs else None
            if h is not None:
                return h
        return None

    def body_of(self, h, stack):
        """the helper's body with its own helper calls inlined (memoised per helper)"""
        key = (h["unit"], h["npath"])
        if key not in self._done:
            body = copy.deepcopy(h["body"])
            body = self.rewrite(body, h["unit"], stack + [h["npath"]], h["npath"])
            self._done[key] = body
        return self._done[key]

    def expand(self, n, h, unit, stack, caller):
        if h["npath"] in stack or len(stack) > 6:
            self.kept.append((caller, h["npath"], "recursive or too deep"))
            return None
        body = self.body_of(h, stack)
        body = eliminate_returns(body, h.get("ret"))
        if body is None:
            self.kept.append((caller, h["npath"], "returns from inside a loop"))
            return None
        body = copy.deepcopy(body)
        params = copy.deepcopy(h.get("params", []))
        args = ([n["recv"]] if n.get("k") == "mcall" else []) + list(n.get("args", []))
        if len(params) != len(args):
            self.kept.append((caller, h["npath"], "arity"))
            return None
        self.counter += 1
        off = self.counter * 1000000
        _renumber(body, off)
        _renumber(params, off)
        self.monomorphise(body, h, n)
        # a moved item that several pinned paths now name is spelled the way the CALLER's module spells it
        rs = getattr(self.prog, "_respell_back", None)
        if rs is not None:
            cf = self.prog.fn(caller)
            rs(body, (cf or {}).get("module", ""))
        env, lets, betas = {}, [], []
        for p, a in zip(params, args):
            simple = p.get("k") == "pbind" and "Mut)" not in p.get("mode", "") and not p.get("sub")
            if simple and _is_place(a):
                env[p["id"]] = a
            elif simple and a.get("k") == "closure" and len(_uses(body, p["id"])) == 1:
                betas.append((p["id"], a))
            else:
                if p.get("k") == "pbind" and p.get("name") == "self":
                    p["name"] = "self'"
                    for u in _uses(body, p["id"]):
                        u["name"] = "self'"
                lets.append({"k": "let", "pat": p, "init": a, "sp": n.get("sp")})
        if env:
            body = _replace_locals(body, env)
        for lid, clo in betas:
            nb = _beta(body, lid, clo)
            if nb is None:
                p = next(q for q in params if q.get("id") == lid)
                lets.append({"k": "let", "pat": p, "init": clo, "sp": n.get("sp")})
            else:
                body = nb
        self.inlined.append((caller, h["npath"]))
        return {"k": "block", "stmts": lets, "expr": body, "ty": n.get("ty"), "sp": n.get("sp"),
                "inlined_from": h["npath"]}

    def monomorphise(self, body, h, call):
        """the helper is generic: its body was type-checked for `I`, the call fixes `I`.  Spell the types of the
        expanded body with the call's generic arguments and re-resolve trait-method calls whose receiver is now a
        workspace type (`<I as Iterator>::next` -> `<Sequences<R> as Iterator>::next`)."""
        import re
        from .facts import norm_path
        names = h.get("generics") or []
        gargs = call.get("gargs") or []
        if not names or len(names) != len(gargs):
            return
        subs = [(re.compile(r"(?<![\w:])%s(?![\w:])" % re.escape(nm)), ga) for nm, ga in zip(names, gargs)
                if nm and not nm.startswith("'") and nm != ga and re.match(r"^[A-Za-z_]\w*$", nm)]
        if not subs:
            return
        def spell(v):
            for rx, ga in subs:
                v = rx.sub(lambda m_, ga=ga: ga, v)
            return v
        for x in _walk_all(body):
            for key in ("ty", "aty", "iter_ty", "rcallee"):
                if isinstance(x.get(key), str):
                    x[key] = spell(x[key])
            if isinstance(x.get("gargs"), list):
                x["gargs"] = [spell(g) if isinstance(g, str) else g for g in x["gargs"]]
        for x in _walk_all(body):
            if x.get("k") != "mcall":
                continue
            callee = x.get("callee") or ""
            trait, _, meth = callee.rpartition("::")
            if not trait or x.get("rcallee") and not x["rcallee"].startswith("<") :
                continue
            rty = (x.get("recv") or {}).get("aty") or (x.get("recv") or {}).get("ty") or ""
            rty = rty.lstrip("&").replace("mut ", "")
            for wrapper in ("std::sync::MutexGuard<'_, ", "std::sync::MutexGuard<", "std::boxed::Box<"):
                if rty.startswith(wrapper):
                    rty = rty[len(wrapper):]
            adt = norm_path(rty.split("<")[0])
            if not adt or adt not in self.prog.adts:
                continue
            for imp in self.prog.impls:
                if imp.get("self_adt") and norm_path(imp["self_adt"]) == adt and imp.get("trait") == trait \
                        and meth in (imp.get("items") or []):
                    cands = [p for p in self.prog.by_path if p.startswith("<" + adt) and p.endswith(" as %s>::%s" % (trait, meth))]
                    if len(cands) == 1:
                        x["rcallee"] = cands[0]
                        x["re_resolved"] = True

    def eta(self, a, unit):
        """a helper fn ITEM passed by name (`.map(fmt_entry)`) is the closure `|x| fmt_entry(x)`; the call inside it is
        then expanded like any other helper call"""
        from .facts import norm_path
        if not isinstance(a, dict) or a.get("k") != "def" or a.get("dk") != "Fn":
            return None
        p = norm_path(a.get("path", ""))
        h = self.helpers.get((unit, p))
        if h is None:
            hs = [f for (u, q), f in self.helpers.items() if q == p]
            h = hs[0] if hs else None
        if h is None or not isinstance(h.get("param_tys"), list) or h.get("generics"):
            return None
        ps, args = [], []
        for i, ty in enumerate(h["param_tys"]):
            self.eta_counter = getattr(self, "eta_counter", 0) + 1
            lid = 800000000 + self.eta_counter
            ps.append({"k": "pbind", "name": "eta%d" % i, "id": lid, "mode": "BindingMode(No, Not)", "ty": ty, "sp": a.get("sp")})
            args.append({"k": "local", "ty": ty, "sp": a.get("sp"), "name": "eta%d" % i, "id": lid})
        call = {"k": "call", "ty": h.get("ret"), "sp": a.get("sp"), "callee": a.get("path"), "cdk": "Fn", "f": a, "args": args}
        return {"k": "closure", "ty": "{closure@eta}", "sp": a.get("sp"), "params": ps, "move": False,
                "def": a.get("path", "") + "::{eta}", "body": call, "from_fn_item": True}

    def rewrite(self, n, unit, stack, caller):
        if isinstance(n, list):
            return [self.rewrite(x, unit, stack, caller) for x in n]
        if not isinstance(n, dict):
            return n
        if n.get("k") in ("call", "mcall") and isinstance(n.get("args"), list):
            for i, a in enumerate(n["args"]):
                c = self.eta(a, unit)
                if c is not None:
                    n["args"][i] = c
        for key, v in list(n.items()):
            if isinstance(v, (dict, list)):
                n[key] = self.rewrite(v, unit, stack, caller)
        if n.get("k") in ("call", "mcall"):
            h = self.helper_for(unit, n)
            if h is not None:
                rep = self.expand(n, h, unit, stack, caller)
                if rep is not None:
                    return rep
        return n


def inline_program(prog):
    known = load_known()
    inl = Inliner(prog, known)
    prog.helper_fns = sorted(set(p for (_, p) in inl.helpers))
    prog.absorbed = set()
    if not inl.helpers:
        prog.inlined = []
        prog.inline_kept = []
        return
    from .facts import normalise_tree
    for (unit, path), f in list(prog.fns.items()):
        if (unit, path) in inl.helpers:
            continue
        f["body"] = inl.rewrite(f["body"], unit, [path], path)
        f["body"] = normalise_tree(f["body"])
    prog.inlined = inl.inlined
    prog.inline_kept = inl.kept
    # a helper all of whose call sites were expanded is judged inside its callers, not as a function of its own
    kept = set(h for _, h, _ in inl.kept)
    prog.absorbed = set(h for _, h in inl.inlined) - kept
