"""Check runner: loads facts of /repo's current tree, evaluates the rules of one property,
prints VIOLATION / KNOWN-FINDING lines, writes evidence."""
import importlib
import json
import os
import re
import sys
import time
import traceback

from . import facts
from .core import FnView, line_of

VERIF = facts.VERIF

PROPS = ["C%02d" % i for i in range(1, 19)]


class Ctx:
    def __init__(self, prog, prop, tier):
        self.prog = prog
        self.prop = prop
        self.tier = tier
        self.results = []
        self._views = {}
        self.notes = []

    # -- access
    def view(self, path, unit=None):
        """FnView of a workspace function by normalised def-path, or None."""
        f = self.prog.fn(path, unit)
        if f is None:
            # a pinned function that is gone (not moved, not renamed): if it had exactly one pinned caller, its code can
            # only have been merged into that caller -- the rules anchored at it look for their shapes there
            host = getattr(self.prog, "absorbed_into", {}).get(path)
            f = self.prog.fn(host, unit) if host else None
            if f is None:
                return None
            self.notes.append("anchored function %s is gone; judged inside its only pinned caller %s" % (path, host))
        k = (f["unit"], f["npath"])
        if k not in self._views:
            self._views[k] = FnView(self.prog, f)
        return self._views[k]

    def need(self, rule, path, unit=None):
        """Anchored function: a missing anchor is a violation (fail closed)."""
        v = self.view(path, unit)
        if v is None:
            self.fail(rule, "%s:anchor" % path,
                      "anchored function `%s` (confirmed on the pinned tree) no longer found; "
                      "the protection it carried cannot be located — re-confirm the rule instance"
                      % path)
        return v

    def all_views(self, pred=None):
        for f in self.prog.workspace_fns():
            if pred is None or pred(f):
                yield self.view(f["npath"], f["unit"])

    # -- verdicts
    def ok(self, rule, key, detail="", sp=None, nontrivial=True):
        self.results.append({"rule": rule, "key": "%s:%s" % (rule, key), "status": "ok",
                             "detail": detail, "sp": sp, "nontrivial": nontrivial})

    def fail(self, rule, key, what, sp=None):
        self.results.append({"rule": rule, "key": "%s:%s" % (rule, key), "status": "violation",
                             "detail": what, "sp": sp, "nontrivial": True})

    def check(self, rule, key, cond, okdetail, faildetail, sp=None, nontrivial=True):
        if cond:
            self.ok(rule, key, okdetail, sp, nontrivial)
        else:
            self.fail(rule, key, faildetail, sp)
        return cond

    def floor(self, rule, n_min):
        """A rule that matched fewer instances than were confirmed by hand is a violation."""
        n = sum(1 for r in self.results if r["rule"] == rule)
        if n < n_min:
            self.fail(rule, "floor", "rule %s examined %d instance(s), fewer than the %d confirmed "
                      "on the pinned tree: an anchored site disappeared" % (rule, n, n_min))


def load_known():
    p = os.path.join(VERIF, "known_findings.json")
    if not os.path.exists(p):
        return []
    with open(p) as fh:
        return json.load(fh).get("findings", [])


def sanitize(s):
    return re.sub(r"[^A-Za-z0-9_.-]+", "_", s)[:150]


def evaluate(prop, repo=None, tier="quick"):
    """Evaluate the rules of one property on the tree at `repo` (default: /repo). Returns (ctx, mod)."""
    prog = facts.load(repo)
    ctx = Ctx(prog, prop, tier)
    mod = importlib.import_module("engine.kmtlint.rules.%s" % prop.lower())
    try:
        mod.run(ctx)
    except Exception as e:
        # The rules never raise on the tree they were confirmed on.  An exception therefore means the
        # analysed code no longer has the shape a rule relies on: fail closed, naming the rule function.
        tb = traceback.extract_tb(e.__traceback__)
        where = next((f for f in reversed(tb) if "/rules/" in f.filename), tb[-1])
        ctx.fail("%s.shape" % prop, "%s:%s" % (os.path.basename(where.filename)[:-3], where.name),
                 "rule `%s` (%s:%d) could not be evaluated on this tree (%s: %s): the code it analyses no longer has "
                 "the confirmed shape; the clauses it decides are undecided — re-confirm the rule instance"
                 % (where.name, os.path.basename(where.filename), where.lineno, type(e).__name__, str(e)[:200]))
        ctx.notes.append("traceback: " + "".join(traceback.format_exception_only(type(e), e)).strip())
    return ctx, mod


def run_property(prop, tier="quick", seed=0, replay=None):
    t0 = time.time()
    evidence_path = os.path.join(VERIF, "evidence", "%s.json" % prop)
    if os.path.realpath(facts.repo_root()) != "/repo":
        # a run against a scratch copy (tools/try_variant.py, battery) must not overwrite the evidence of the real tree
        evidence_path = os.path.join(VERIF, "out", "scratch-evidence", "%s.json" % prop)
    try:
        os.remove(evidence_path)
    except OSError:
        pass
    try:
        ctx, mod = evaluate(prop, None, tier)
        prog = ctx.prog
    except facts.CheckerError as e:
        print("CHECKER-ERROR property=%s %s" % (prop, e))
        return 2
    except Exception:
        print("CHECKER-ERROR property=%s rule engine crashed:\n%s" % (prop, traceback.format_exc()))
        return 2
    thorough = None
    if tier == "thorough":
        from . import battery
        try:
            thorough = battery.run(prop, seed)
        except Exception:
            print("CHECKER-ERROR property=%s self-validation battery crashed:\n%s" % (prop, traceback.format_exc()))
            return 2

    known = {k["key"]: k for k in load_known()
             if k.get("property") == prop and k.get("status") == "open"}
    viols = [r for r in ctx.results if r["status"] == "violation"]
    oks = [r for r in ctx.results if r["status"] == "ok"]
    new_viols = []
    known_printed = []
    for v in viols:
        if v["key"] in known:
            known_printed.append(v)
            print("KNOWN-FINDING: property=%s %s %s" % (prop, v["key"], known[v["key"]].get("what", v["detail"])))
        else:
            new_viols.append(v)
    outdir = os.path.join(VERIF, "out", prop)
    os.makedirs(outdir, exist_ok=True)
    for v in new_viols:
        rp = os.path.join(outdir, sanitize(v["key"]) + ".json")
        with open(rp, "w") as fh:
            json.dump({"property": prop, "rule": v["rule"], "key": v["key"], "what": v["detail"],
                       "site": v["sp"], "tree_key": prog.key, "tier": tier}, fh, indent=1)
        print("%s: %s\n    at %s" % (v["key"], v["detail"], v["sp"] or "?"))
        print("VIOLATION property=%s replay=%s" % (prop, rp))

    rules = sorted(set(r["rule"] for r in ctx.results))
    distinct_nontrivial = len(set(r["key"] for r in ctx.results if r["nontrivial"]))
    samples = []
    seen_rules = set()
    for r in ctx.results:
        if r["rule"] in seen_rules or r["status"] != "ok":
            continue
        seen_rules.add(r["rule"])
        samples.append({"rule": r["rule"], "instance": r["key"], "site": r["sp"], "matched": r["detail"][:300]})
    for v in viols[:6]:
        samples.append({"rule": v["rule"], "instance": v["key"], "site": v["sp"],
                        "violation": v["detail"][:300],
                        "known_finding": v["key"] in known})
    ev = {
        "property_id": prop,
        "tier": tier,
        "seed": int(seed),
        "level": "other",
        "coverage": {
            "explanation": getattr(mod, "EXPLANATION", "") + " Rules applied: " + ", ".join(rules),
            "obligations": len(ctx.results),
            "discharged": len(oks),
            "evaluations": len(ctx.results),
            "distinct_nontrivial": distinct_nontrivial,
            "rule": "one obligation per (rule, site) instance found in the type-checked program of "
                    "the current working tree; non-trivial = the verdict came from a term / guard / "
                    "type / table comparison rather than from the mere presence of an anchor",
            "samples": samples[:14],
            "rules": rules,
            "functions_analysed": prog.n_functions(),
            "fact_files": prog.files,
            "crates_analysed": sorted(set(u.rsplit("-", 2)[0] for u in prog.units)),
            "tree_key": prog.key,
            "facts_freshly_extracted": bool(getattr(prog, "fresh", False)),
            "known_findings_printed": [v["key"] for v in known_printed],
            "checker_cmd": "./check %s --tier %s" % (prop, tier),
            "trusted_base": ["rustc 1.97 nightly front end (HIR, typeck, MIR build, const eval)",
                             "cargo build plan of the workspace",
                             "documented semantics of rayon/scc/flate2/bio/memmap2/clap as used",
                             "spec tables transcribed from properties.jsonl", "python3 stdlib"],
            "notes": ctx.notes,
            "normal_forms": {
                "explanation": "load-time rewrites applied to the typed tree before the rules ran (DESIGN 10.11/10.13); "
                               "all empty / zero on the pinned tree",
                "helpers_expanded": sorted(set("%s <- %s" % (c, h) for c, h in getattr(prog, "inlined", [])))[:40],
                "helpers_left_as_calls": [list(x) for x in getattr(prog, "inline_kept", [])][:20],
                "moved_items": getattr(prog, "aliases", {}),
                "renamed_functions": getattr(prog, "renamed", {}),
                "absorbed_anchors": getattr(prog, "absorbed_into", {}),
                "regrouped_fields": getattr(prog, "field_groups", {}),
                "methods_restored": [list(x) for x in getattr(prog, "arg_fields", [])],
            },
            "thorough": thorough,
        },
        "assumptions": getattr(mod, "ASSUMPTIONS", []),
        "wall_s": round(time.time() - t0, 3),
        "violations": len(new_viols),
    }
    os.makedirs(os.path.dirname(evidence_path), exist_ok=True)
    with open(evidence_path, "w") as fh:
        json.dump(ev, fh, indent=1, default=str)
    print("%s %s: %d obligations, %d discharged, %d known finding(s), %d new violation(s) "
          "[facts %s, %d fns, %.1fs]" % (prop, tier, len(ctx.results), len(oks), len(known_printed),
                                        len(new_viols), prog.key[:8], prog.n_functions(),
                                        time.time() - t0))
    if thorough is not None and not thorough.get("ok", False):
        print("CHECKER-ERROR property=%s self-validation failed: %s" % (prop, "; ".join(thorough.get("failures", []))[:1500]))
        return 2 if not new_viols else 1
    return 1 if new_viols else 0


def main(argv):
    import argparse
    ap = argparse.ArgumentParser(prog="check")
    ap.add_argument("prop", nargs="?")
    ap.add_argument("--tier", default=os.environ.get("VERIF_TIER", "quick"),
                    choices=["quick", "thorough"])
    ap.add_argument("--replay")
    ap.add_argument("--all", action="store_true")
    a = ap.parse_args(argv)
    seed = int(os.environ.get("VERIF_SEED", "0") or 0)
    if a.replay:
        with open(a.replay) as fh:
            r = json.load(fh)
        print("replaying %s (%s) against the current tree" % (r["key"], r["property"]))
        rc = run_property(r["property"], r.get("tier", "quick"), seed)
        return rc
    if a.all:
        rc = 0
        for p in PROPS:
            rc = max(rc, run_property(p, a.tier, seed))
        return rc
    if not a.prop:
        ap.error("property id required")
    return run_property(a.prop, a.tier, seed)
