"""Thorough tier: checker self-validation.

E4  seeded variants: each recorded edit (variants/<Cnn>.json and seeded/<id>/patch.diff) is applied
    to a scratch copy of the CURRENT /repo (outside /repo and /verif), facts are re-extracted and the
    property's rules re-evaluated: a breaking variant must raise a violation of one of the named rules,
    a neutral variant must stay silent.  Variants whose anchor text is gone are skipped and counted.
E3  compile-fail witnesses (engine/witness) for the properties that have type-level clauses.
A failed battery means the checker is unsound/brittle: exit 2 (CHECKER-ERROR), never a VIOLATION.
"""
import glob
import json
import os
import random
import shutil
import subprocess
import tempfile
import time

from . import facts

VERIF = facts.VERIF


def scratch_copy():
    base = os.environ.get("KMT_SCRATCH") or tempfile.gettempdir()
    d = tempfile.mkdtemp(prefix="kmt-battery-", dir=base)
    subprocess.check_call(["rsync", "-a", "--exclude", "/target", "--exclude", "/.git", "--exclude", "/test_data",
                           facts.repo_root() + "/", d + "/"])
    return d


def load_variants(prop):
    out = []
    p = os.path.join(VERIF, "variants", "%s.json" % prop)
    if os.path.exists(p):
        with open(p) as fh:
            for v in json.load(fh)["variants"]:
                v["source"] = "variants/%s.json" % prop
                out.append(v)
    for meta in sorted(glob.glob(os.path.join(VERIF, "seeded", "*", "meta.json"))):
        with open(meta) as fh:
            m = json.load(fh)
        if prop in m.get("checked_by", [m.get("property")]):
            out.append({"name": "seeded/" + os.path.basename(os.path.dirname(meta)), "kind": "breaking",
                        "patch": os.path.join(os.path.dirname(meta), "patch.diff"),
                        "expect_rules": m.get("expect_rules", {}).get(prop, [prop + "."]),
                        "source": os.path.relpath(meta, VERIF)})
    # behaviour-preserving refactorings written by independent sub-agents: must stay silent.
    # A property's thorough run takes the ones that touch files of its anchors.
    anchors = set()
    try:
        with open(os.path.join(VERIF, "properties.jsonl")) as fh:
            for line in fh:
                pr = json.loads(line)
                if pr["id"] == prop:
                    anchors = set(pr["anchors"]["files"])
    except OSError:
        pass
    for pth in sorted(glob.glob(os.path.join(VERIF, "variants", "neutral", "*.diff"))):
        try:
            txt = open(pth).read()
        except OSError:
            continue
        files = set(x[6:] for x in txt.splitlines() if x.startswith("+++ b/"))
        if files & anchors:
            out.append({"name": "neutral/" + os.path.basename(pth), "kind": "neutral", "patch": pth,
                        "source": os.path.relpath(pth, VERIF)})
    return out


def apply_variant(v, d):
    if v.get("patch"):
        r = subprocess.run(["git", "apply", "--unsafe-paths", "--directory", d, v["patch"]], cwd="/", capture_output=True, text=True)
        if r.returncode != 0:
            r = subprocess.run(["patch", "-p1", "-s", "-f", "-i", v["patch"]], cwd=d, capture_output=True, text=True)
            if r.returncode != 0:
                return False
        return True
    for f, old, new in v.get("subs", []):
        p = os.path.join(d, f)
        try:
            txt = open(p).read()
        except OSError:
            return False
        if old not in txt:
            return False
        open(p, "w").write(txt.replace(old, new, 1))
    return True


def _worker_init(counter):
    with counter.get_lock():
        counter.value += 1
        slot = counter.value
    # KMT_BATTERY_SLOT_BASE: several thorough runs side by side use disjoint cargo target directories
    os.environ["KMT_TARGET_SLOT"] = "-b%d" % (slot + int(os.environ.get("KMT_BATTERY_SLOT_BASE", "0") or 0))


def _run_one(args):
    """apply one variant to a private copy and evaluate the property's rules on it (in a worker process)"""
    prop, v, pristine, deadline = args
    from .run import evaluate
    if time.time() > deadline:
        return v, "time_box", None
    d = tempfile.mkdtemp(prefix="kmt-variant-", dir=os.path.dirname(pristine))
    try:
        subprocess.check_call(["rsync", "-a", pristine + "/", d + "/"])
        if not apply_variant(v, d):
            return v, "skipped", None
        try:
            ctx, _ = evaluate(prop, d)
        except facts.CheckerError:
            return v, "no_compile", None
        return v, "ok", sorted(set(r["rule"] for r in ctx.results if r["status"] == "violation"))
    finally:
        shutil.rmtree(d, ignore_errors=True)


def run(prop, seed=0, max_seconds=1500):
    import multiprocessing
    t0 = time.time()
    variants = load_variants(prop)
    rnd = random.Random(seed)
    rnd.shuffle(variants)
    res = {"ok": True, "variants_total": len(variants), "fired": [], "neutral_silent": [], "skipped": [], "failures": [],
           "not_run_time_box": []}
    pristine = scratch_copy()
    workers = max(1, min(4, (os.cpu_count() or 4) // 4))
    res["workers"] = workers
    try:
        counter = multiprocessing.Value("i", 0)
        jobs = [(prop, v, pristine, t0 + max_seconds) for v in variants]
        with multiprocessing.Pool(workers, initializer=_worker_init, initargs=(counter,)) as pool:
            results = pool.map(_run_one, jobs, chunksize=1)
        for v, status, viol in results:
            if status == "time_box":
                res["not_run_time_box"].append(v["name"])
            elif status == "skipped":
                res["skipped"].append(v["name"])
            elif status == "no_compile":
                res["skipped"].append(v["name"] + " (does not compile on the current tree)")
            elif v["kind"] == "breaking":
                exp = v.get("expect_rules") or [prop + "."]
                hit = [r for r in viol if any(r.startswith(e) for e in exp)]
                if hit:
                    res["fired"].append({"variant": v["name"], "rules": hit})
                elif viol and v["name"].startswith("seeded/"):
                    # caught, but by other rules of this property than those recorded when the seed was filed
                    res["fired"].append({"variant": v["name"], "rules": viol, "note": "recorded rules %s no longer fire" % exp})
                else:
                    res["ok"] = False
                    res["failures"].append("breaking variant %s was not reported by %s (violations: %s)" % (v["name"], exp, viol))
            else:
                if viol:
                    res["ok"] = False
                    res["failures"].append("neutral variant %s raised %s" % (v["name"], viol))
                else:
                    res["neutral_silent"].append(v["name"])
    finally:
        shutil.rmtree(pristine, ignore_errors=True)
    w = witnesses(prop)
    if w is not None:
        res["witnesses"] = w
        if not w.get("ok", False):
            res["ok"] = False
            res["failures"].append("compile-fail witnesses: %s" % w.get("detail", "")[:600])
    res["wall_s"] = round(time.time() - t0, 1)
    return res


WITNESS_PROPS = {"C07", "C13", "C14"}


def witnesses(prop):
    """E3: run the doc-test witnesses (compile_fail + compiling twins) once per thorough run of a property that owns some."""
    if prop not in WITNESS_PROPS:
        return None
    wdir = os.path.join(VERIF, "engine", "witness")
    if not os.path.isdir(wdir):
        return None
    repo = facts.repo_root()
    # the witness crate path-depends on /repo's crates; give it the repository's lock file
    try:
        shutil.copy(os.path.join(repo, "Cargo.lock"), os.path.join(wdir, "Cargo.lock"))
    except OSError:
        pass
    env = dict(os.environ, CARGO_NET_OFFLINE="true", CARGO_TARGET_DIR=os.path.join(facts.OUT, "witness-target"),
               KMT_REPO=repo)
    r = subprocess.run(["cargo", "+nightly", "test", "--doc", "--offline"], cwd=wdir, env=env, capture_output=True, text=True)
    out = r.stdout + r.stderr
    passed = failed = 0
    for line in out.splitlines():
        if line.startswith("test result:"):
            parts = line.split()
            try:
                passed += int(parts[3])
                failed += int(parts[5])
            except (IndexError, ValueError):
                pass
    return {"ok": r.returncode == 0 and passed >= 6 and failed == 0, "passed": passed, "failed": failed,
            "detail": "" if r.returncode == 0 else out[-800:]}
