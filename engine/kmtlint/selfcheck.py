"""Setup-time self check: the driver exists, the rule modules import, spec tables are sane."""
import importlib
import os
import sys

from . import facts
from .rules import common


def normal_forms():
    """positive examples for the load-time normal forms (they must keep rewriting what they claim to rewrite)"""
    from . import inline
    from .facts import normalise_tree
    L = lambda v: {"k": "lit", "lk": "int", "v": v}
    loc = lambda i: {"k": "local", "name": "x%d" % i, "id": i}
    # return elimination: { if c { return 1 } ; 2 }  ->  if c { 1 } else { 2 }
    body = {"k": "block", "stmts": [{"k": "semi", "e": {"k": "if", "cond": loc(1), "then": {
        "k": "block", "stmts": [{"k": "semi", "e": {"k": "ret", "e": L(1)}}], "expr": None}}}], "expr": L(2)}
    out = inline.eliminate_returns(body, "i32")
    assert out is not None and not inline._has_ret(out), "return elimination"
    iff = out["expr"]
    assert iff["k"] == "if" and iff["then"]["expr"]["v"] == 1 and iff["else"]["expr"]["v"] == 2, "return elimination shape"
    assert iff["then"]["expr"].get("was_ret"), "early exits stay marked"
    # a return inside a loop is not eliminated
    lp = {"k": "block", "stmts": [{"k": "loop", "lid": 9, "body": {"k": "block", "stmts": [
        {"k": "semi", "e": {"k": "ret", "e": L(1)}}], "expr": None}}], "expr": L(2)}
    assert inline.eliminate_returns(lp, "i32") is None, "loop returns must not be eliminated"
    # case-of-case: if let Some(v) = (if c { Some(1) } else { None }) { T }  ->  if c { let v = 1; T } else { }
    some = {"k": "call", "cdk": "Ctor(Variant, Fn)", "callee": "std::prelude::v1::Some", "args": [L(1)]}
    none = {"k": "def", "dk": "Ctor(Variant, Const)", "path": "std::prelude::v1::None"}
    n = {"k": "if", "cond": {"k": "letexpr", "pat": {"k": "ptstruct", "path": "std::prelude::v1::Some", "ps": [
        {"k": "pbind", "name": "v", "id": 5, "mode": "BindingMode(No, Not)"}]},
        "init": {"k": "if", "cond": loc(1), "then": some, "else": none}}, "then": {"k": "block", "stmts": [], "expr": loc(5)}}
    r = normalise_tree(n)
    assert r["k"] == "if" and r.get("case_of_case") and r["cond"]["k"] == "local", "case of case"
    assert r["then"]["k"] == "block" and r["then"]["stmts"][0]["k"] == "let" and r["then"]["stmts"][0]["init"]["v"] == 1
    # write!(w, ..) == w.write_all(format!(..).as_bytes())
    w = {"k": "mcall", "callee": "std::io::Write::write_fmt", "name": "write_fmt", "recv": loc(2), "args": [loc(3)]}
    r = normalise_tree(w)
    assert r["callee"] == "std::io::Write::write_all" and r["args"][0]["recv"]["callee"] == "alloc::fmt::format"


def main():
    facts.ensure_driver()
    assert os.path.exists(facts.DRIVER), "driver missing"
    t = common.nt4_spec()
    assert len(t) == 252 and t[ord("u")] == 3 and t[ord("N")] == 4
    n = 0
    for i in range(1, 19):
        try:
            importlib.import_module("engine.kmtlint.rules.c%02d" % i)
            n += 1
        except ModuleNotFoundError:
            pass
    normal_forms()
    print("kmtlint selfcheck ok: driver present, %d rule modules import, normal forms behave" % n)
    return 0


if __name__ == "__main__":
    sys.exit(main())
