"""Setup-time self check: the driver exists, the rule modules import, spec tables are sane."""
import importlib
import os
import sys

from . import facts
from .rules import common


def normal_forms():
    """positive examples for the load-time normal forms (they must keep rewriting what they claim to rewrite)"""
    from . import inline
    from .facts import normalise_tree
    L = lambda v: {"k": "lit", "lk": "int", "v": v}
    loc = lambda i: {"k": "local", "name": "x%d" % i, "id": i}
    # return elimination: { if c { return 1 } ; 2 }  ->  if c { 1 } else { 2 }
    body = {"k": "block", "stmts": [{"k": "semi", "e": {"k": "if", "cond": loc(1), "then": {
        "k": "block", "stmts": [{"k": "semi", "e": {"k": "ret", "e": L(1)}}], "expr": None}}}], "expr": L(2)}
    out = inline.eliminate_returns(body, "i32")
    assert out is not None and not inline._has_ret(out), "return elimination"
    iff = out["expr"]
    assert iff["k"] == "if" and iff["then"]["expr"]["v"] == 1 and iff["else"]["expr"]["v"] == 2, "return elimination shape"
    assert iff["then"]["expr"].get("was_ret"), "early exits stay marked"
    # a return inside a loop is not eliminated
    lp = {"k": "block", "stmts": [{"k": "loop", "lid": 9, "body": {"k": "block", "stmts": [
        {"k": "semi", "e": {"k": "ret", "e": L(1)}}], "expr": None}}], "expr": L(2)}
    assert inline.eliminate_returns(lp, "i32") is None, "loop returns must not be eliminated"
    # case-of-case: if let Some(v) = (if c { Some(1) } else { None }) { T }  ->  if c { let v = 1; T } else { }
    some = {"k": "call", "cdk": "Ctor(Variant, Fn)", "callee": "std::prelude::v1::Some", "args": [L(1)]}
    none = {"k": "def", "dk": "Ctor(Variant, Const)", "path": "std::prelude::v1::None"}
    n = {"k": "if", "cond": {"k": "letexpr", "pat": {"k": "ptstruct", "path": "std::prelude::v1::Some", "ps": [
        {"k": "pbind", "name": "v", "id": 5, "mode": "BindingMode(No, Not)"}]},
        "init": {"k": "if", "cond": loc(1), "then": some, "else": none}}, "then": {"k": "block", "stmts": [], "expr": loc(5)}}
    r = normalise_tree(n)
    assert r["k"] == "if" and r.get("case_of_case") and r["cond"]["k"] == "local", "case of case"
    assert r["then"]["k"] == "block" and r["then"]["stmts"][0]["k"] == "let" and r["then"]["stmts"][0]["init"]["v"] == 1
    # while let -> loop / if let / break
    wl = {"k": "while", "lid": 3, "cond": {"k": "letexpr", "pat": {"k": "pwild"}, "init": loc(1)}, "body": {"k": "block", "stmts": [], "expr": None}}
    r = normalise_tree(wl)
    assert r["k"] == "loop" and r["body"]["expr"]["k"] == "if" and r["body"]["expr"]["else"]["stmts"][0]["e"]["k"] == "break"
    # match (a, b) { (true, _) => 1, (false, true) => 2, (false, false) => 3 }  ->  if a {1} else {if b {2} else {3}}
    bl = lambda i: {"k": "local", "name": "b%d" % i, "id": i, "ty": "bool"}
    pt = lambda *vs: {"k": "ptuple", "ps": [{"k": "pwild"} if v is None else {"k": "plit", "lk": "bool", "v": v} for v in vs]}
    mb = {"k": "match", "src": "Normal", "e": {"k": "tup", "es": [bl(1), bl(2)]}, "arms": [
        {"pat": pt(True, None), "body": L(1)}, {"pat": pt(False, True), "body": L(2)}, {"pat": pt(False, False), "body": L(3)}]}
    r = normalise_tree(mb)
    assert r["k"] == "if" and r["cond"]["id"] == 1 and r["then"]["expr"]["v"] == 1 and r["else"]["expr"]["cond"]["id"] == 2
    # o.map(|x| x) -> if let Some(x) = o { Some(x) } else { None }
    mp = {"k": "mcall", "callee": "std::option::Option::<T>::map", "name": "map", "recv": loc(4), "args": [
        {"k": "closure", "params": [{"k": "pbind", "name": "x", "id": 7, "mode": "BindingMode(No, Not)"}], "body": loc(7)}]}
    r = normalise_tree(mp)
    assert r["k"] == "if" and r["cond"]["k"] == "letexpr" and r.get("from_combinator") == "map"
    # it.for_each(|x| ..) -> for x in it
    fe = {"k": "mcall", "callee": "std::iter::Iterator::for_each", "name": "for_each", "recv": loc(4), "args": [
        {"k": "closure", "params": [{"k": "pbind", "name": "x", "id": 8, "mode": "BindingMode(No, Not)"}], "body": loc(8)}]}
    assert normalise_tree(fe)["k"] == "for"
    # x % 4 -> x & 3 on unsigned
    pw = {"k": "bin", "op": "%", "ty": "u64", "l": loc(1), "r": {"k": "lit", "lk": "int", "v": 4}}
    r = normalise_tree(pw)
    assert r["op"] == "&" and r["r"]["v"] == 3
    # match x { 0 => 1, w => w } -> if x == 0 { 1 } else { let w = x; w }
    mi = {"k": "match", "src": "Normal", "e": {"k": "local", "name": "x", "id": 1, "ty": "usize"}, "arms": [
        {"pat": {"k": "plit", "lk": "int", "v": 0}, "body": L(1)},
        {"pat": {"k": "pbind", "name": "w", "id": 9, "mode": "BindingMode(No, Not)"}, "body": loc(9)}]}
    r = normalise_tree(mi)
    assert r["k"] == "if" and r["cond"]["op"] == "==" and r["else"]["stmts"][0]["k"] == "let"
    # write!(w, ..) == w.write_all(format!(..).as_bytes())
    w = {"k": "mcall", "callee": "std::io::Write::write_fmt", "name": "write_fmt", "recv": loc(2), "args": [loc(3)]}
    r = normalise_tree(w)
    assert r["callee"] == "std::io::Write::write_all" and r["args"][0]["recv"]["callee"] == "alloc::fmt::format"


def main():
    facts.ensure_driver()
    assert os.path.exists(facts.DRIVER), "driver missing"
    t = common.nt4_spec()
    assert len(t) == 252 and t[ord("u")] == 3 and t[ord("N")] == 4
    n = 0
    for i in range(1, 19):
        try:
            importlib.import_module("engine.kmtlint.rules.c%02d" % i)
            n += 1
        except ModuleNotFoundError:
            pass
    normal_forms()
    print("kmtlint selfcheck ok: driver present, %d rule modules import, normal forms behave" % n)
    return 0


if __name__ == "__main__":
    sys.exit(main())
