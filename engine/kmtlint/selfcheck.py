"""Setup-time self check: the driver exists, the rule modules import, spec tables are sane."""
import importlib
import os
import sys

from . import facts
from .rules import common


def main():
    facts.ensure_driver()
    assert os.path.exists(facts.DRIVER), "driver missing"
    t = common.nt4_spec()
    assert len(t) == 252 and t[ord("u")] == 3 and t[ord("N")] == 4
    n = 0
    for i in range(1, 19):
        try:
            importlib.import_module("engine.kmtlint.rules.c%02d" % i)
            n += 1
        except ModuleNotFoundError:
            pass
    print("kmtlint selfcheck ok: driver present, %d rule modules import" % n)
    return 0


if __name__ == "__main__":
    sys.exit(main())
