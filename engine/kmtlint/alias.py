"""Import normal form: an item that moved to another module but is still reachable under its pinned path through a
`use` (re-export or private import) is given its pinned path back.

`pub use crate::reader::get_reader;` in ktio::seq, or `use crate::nt4::SEQ_NT4_TABLE;` in kmer::kmer, make
`ktio::seq::get_reader` / `kmer::kmer::SEQ_NT4_TABLE` valid spellings of the moved item inside that module — the
compiler resolved them for the build, the driver reports every `use` item with its resolved target.  For each pinned
item path (known_items.json: def-paths of functions, constants and types of the pinned tree) that no longer has a
definition of its own but is such a spelling, the target's facts are registered under the pinned path as well, and the
references inside function bodies are spelled the pinned way (choosing, when several pinned paths now share one
target, the spelling of the referring function's own module).  Only spellings change; what is analysed is the moved
item's current body / value.
"""
import json
import os
import re

HERE = os.path.dirname(os.path.abspath(__file__))
KNOWN_FILE = os.path.join(HERE, "known_items.json")
_SKIP_KEYS = {"sp", "mac", "name", "v", "k", "lk", "op", "mode", "src", "unit", "module"}


def load_known_items():
    with open(KNOWN_FILE) as fh:
        return json.load(fh)


def apply_aliases(prog):
    from .facts import norm_path
    known = load_known_items()
    uses = {}      # alias path -> target path
    globs = {}     # module -> [target modules]
    for unit, d in prog.units.items():
        crate = d.get("crate", "")
        for f in d.get("fns", []):
            if f.get("module") == "crate":
                f["module"] = crate
        for u in d.get("uses", []):
            mod = crate if u.get("module") == "crate" else u.get("module", "")
            tgt = norm_path(u.get("target", ""))
            if tgt == "crate":
                tgt = crate
            if u.get("glob"):
                globs.setdefault(mod, []).append(tgt)
            else:
                a = "%s::%s" % (mod, u.get("name"))
                if a != tgt:
                    uses.setdefault(a, tgt)

    defined = set(prog.by_path) | set(prog.consts) | set(prog.adts)

    def resolve(p):
        seen = set()
        while p not in defined and p not in seen:
            seen.add(p)
            if p in uses:
                p = uses[p]
                continue
            mod, _, name = p.rpartition("::")
            nxt = None
            for g in globs.get(mod, []):
                cand = "%s::%s" % (g, name)
                if cand in defined or cand in uses:
                    nxt = cand
                    break
            if nxt is None:
                return None
            p = nxt
        return p if p in defined else None

    back = {}      # target -> [pinned spellings]
    for kind in ("fns", "consts", "adts"):
        for p in known.get(kind, []):
            if p in defined:
                continue
            t = resolve(p)
            if t is not None and t not in known.get(kind, []):
                back.setdefault(t, []).append(p)
    # a pinned constant that is gone and not importable under its pinned path any more (it is only reached through
    # helpers of its new module): the one constant of the same name and type in the same crate is that constant
    resolved_c = set(p for ps in back.values() for p in ps)
    for p in known.get("consts", []):
        if p in defined or p in resolved_c or p.startswith("<"):
            continue
        crate, last = p.split("::")[0], p.rpartition("::")[2]
        cands = [q for q, c in prog.consts.items() if q not in known.get("consts", []) and q.split("::")[0] == crate
                 and q.rpartition("::")[2] == last and not q.startswith("<")]
        if len(cands) == 1:
            back.setdefault(cands[0], []).append(p)
    # renamed functions: a pinned function that is gone, and exactly one function that is new, in the same impl /
    # module, with the same kind and signature -- the pinned name is given back to it
    known_fns = set(known.get("fns", []))
    resolved = set(p for ps in back.values() for p in ps)
    new_fns = {}
    for (unit, path), f in prog.fns.items():
        if path not in known_fns and f.get("dk") in ("Fn", "AssocFn") and path not in back:
            new_fns.setdefault(path, f)
    sigs = known.get("fn_sigs", {})
    renamed = {}
    for p in sorted(known_fns):
        if p in defined or p in resolved or p not in sigs or p.startswith("<"):
            continue
        want = sigs[p]
        cands = [q for q, f in new_fns.items() if not q.startswith("<") and q.rpartition("::")[0] == p.rpartition("::")[0]
                 and [f.get("dk"), f.get("param_tys"), f.get("ret")] == want[:3] and q not in renamed.values()]
        gone_siblings = [x for x in known_fns if x not in defined and x not in resolved and x in sigs
                         and x.rpartition("::")[0] == p.rpartition("::")[0] and sigs[x][:3] == want[:3]]
        if len(cands) == 1 and len(gone_siblings) == 1:
            renamed[p] = cands[0]
    for p, q in renamed.items():
        back.setdefault(q, []).append(p)
    prog.renamed = dict(renamed)
    # gone for good: merged into the single pinned caller (if that still exists)
    prog.absorbed_into = {}
    for p in sorted(known_fns):
        if p in defined or p in resolved or p in renamed:
            continue
        cs = known.get("callers", {}).get(p, [])
        if len(cs) == 1 and (cs[0] in defined or cs[0] in resolved or cs[0] in renamed):
            prog.absorbed_into[p] = cs[0]
    prog.aliases = {t: sorted(ps) for t, ps in back.items()}
    if not back:
        return
    # register the facts under the pinned spellings
    for t, ps in back.items():
        for p in ps:
            if t in prog.by_path:
                prog.by_path.setdefault(p, prog.by_path[t])
                for f in prog.by_path[t]:
                    prog.fns.setdefault((f["unit"], p), f)
            if t in prog.consts:
                prog.consts.setdefault(p, prog.consts[t])
            if t in prog.adts:
                prog.adts.setdefault(p, prog.adts[t])
    # respell references
    pats = [(re.compile(r"(?<![\w:])%s(?![\w])" % re.escape(t)), t, ps) for t, ps in
            sorted(back.items(), key=lambda kv: -len(kv[0]))]

    def choose(ps, module):
        for p in ps:
            if p.rpartition("::")[0] == module:
                return p
        return ps[0]

    def respell(n, module):
        if isinstance(n, list):
            for x in n:
                respell(x, module)
        elif isinstance(n, dict):
            for key, v in n.items():
                if isinstance(v, str):
                    if key in _SKIP_KEYS or "::" not in v:
                        continue
                    for rx, t, ps in pats:
                        if t in v:
                            v = rx.sub(choose(ps, module), v)
                    n[key] = v
                elif isinstance(v, (dict, list)):
                    respell(v, module)
    prog._respell = respell
    multi = [(re.compile(r"(?<![\w:])(?:%s)(?![\w])" % "|".join(re.escape(p_) for p_ in sorted(ps, key=len, reverse=True))), ps)
             for t, ps in back.items() if len(ps) > 1]

    def respell_back(n, module):
        """inside an expanded helper: a shared moved item is spelled the way the caller's module spells it"""
        if not multi:
            return
        if isinstance(n, list):
            for x in n:
                respell_back(x, module)
        elif isinstance(n, dict):
            for key, v in n.items():
                if isinstance(v, str):
                    if key in _SKIP_KEYS or "::" not in v:
                        continue
                    for rx, ps in multi:
                        v = rx.sub(choose(ps, module), v)
                    n[key] = v
                elif isinstance(v, (dict, list)):
                    respell_back(v, module)
    prog._respell_back = respell_back
    moved_fns = {}
    for (unit, path), f in list(prog.fns.items()):
        if path != f.get("npath"):
            continue          # the alias registration of a moved function: same dict, visited under its own key
        module = f.get("module", "")
        respell(f["body"], module)
        respell(f.get("params", []), module)
        for key in ("ret", "self_ty", "parent"):
            if isinstance(f.get(key), str):
                for rx, t, ps in pats:
                    if t in f[key]:
                        f[key] = rx.sub(choose(ps, module), f[key])
        if isinstance(f.get("param_tys"), list):
            out = []
            for s_ in f["param_tys"]:
                for rx, t, ps in pats:
                    if t in s_:
                        s_ = rx.sub(choose(ps, module), s_)
                out.append(s_)
            f["param_tys"] = out
    # a moved function takes its pinned path (first spelling) as its own
    for t, ps in back.items():
        for f in prog.by_path.get(t, []):
            if f.get("npath") == t:
                f["moved_from"] = t
                f["npath"] = ps[0]
                prog.fns.pop((f["unit"], t), None)
                prog.fns[(f["unit"], ps[0])] = f
        if t in prog.by_path and ps:
            prog.by_path.pop(t, None)
    # methods of a moved type: `<new::Type>::m` respelled in their own npath
    for (unit, path), f in list(prog.fns.items()):
        np = f.get("npath", "")
        new = np
        for rx, t, ps in pats:
            if t in new:
                new = rx.sub(ps[0], new)
        if new != np:
            f["npath"] = new
            prog.fns.pop((unit, path), None)
            prog.fns[(unit, new)] = f
            lst = prog.by_path.pop(np, [])
            prog.by_path.setdefault(new, [])
            if f not in prog.by_path[new]:
                prog.by_path[new].append(f)


# ------------------------------------------------------------------ field normal form

def apply_field_groups(prog):
    """A pinned struct whose fields were grouped into a nested private struct that did not exist on the pinned tree
    (`bins: BinConfig { size, count }` for `bin_size`, `bin_count`) is presented with its pinned flat fields.

    The missing pinned fields of S are matched with the fields of the new nested structs (one level) by, in order:
    the same name; the constructor parameter that initialises them (a pinned field that was initialised from the
    parameter of the same name); a unique type.  Only a complete, one-to-one match is used; otherwise nothing is
    rewritten and the rules see the tree as it is (and fail closed on their anchors)."""
    from .facts import norm_path
    known = load_known_items()
    kfields = known.get("adt_fields", {})
    groups = {}           # S -> {(g, f): pinned}
    for spath, pinned in kfields.items():
        adt = prog.adts.get(spath)
        if adt is None or adt.get("dk") != "Struct" or not adt.get("variants"):
            continue
        cur = adt["variants"][0]["fields"]
        cur_names = set(f["name"] for f in cur)
        missing = [(n, t) for n, t in pinned if n not in cur_names]
        if not missing:
            continue
        nested = []       # (g, f, ty, vis) -- g is None for a renamed direct field
        for gf in cur:
            tpath = norm_path(gf.get("ty", ""))
            if gf["name"] in dict(pinned):
                continue
            if prog.adts.get(tpath) is None or tpath in known.get("adts", []):
                nested.append((None, gf["name"], gf.get("ty", ""), gf.get("vis", ""), gf.get("vis", "")))
                continue
            t = prog.adts.get(tpath)
            if t is None or t.get("dk") != "Struct" or not t.get("variants"):
                continue
            for f in t["variants"][0]["fields"]:
                nested.append((gf["name"], f["name"], f.get("ty", ""), gf.get("vis", ""), f.get("vis", "")))
        if not nested:
            continue
        # constructor evidence: nested field initialised from the parameter named like a missing pinned field
        by_param = {}
        for f in prog.by_path.get(spath + "::new", []):
            pnames = {p.get("id"): p.get("name") for p in f.get("params", []) if p.get("k") == "pbind"}
            for lit in _walk_nodes(f["body"]):
                if lit.get("k") != "struct":
                    continue
                for fe in lit.get("fields", []):
                    e = fe.get("e")
                    while isinstance(e, dict) and e.get("k") in ("cast",) and False:
                        e = e["e"]
                    if isinstance(e, dict) and e.get("k") == "local" and e.get("id") in pnames:
                        by_param[(norm_path(lit.get("adt") or lit.get("path", "")), fe["name"])] = pnames[e["id"]]
        mapping = {}
        used = set()
        for mname, mty in missing:
            cands = [x for x in nested if x[1] == mname and (x[0], x[1]) not in used]
            if len(cands) != 1:
                cands = []
                for x in nested:
                    gty = spath if x[0] is None else norm_path(next(g_["ty"] for g_ in cur if g_["name"] == x[0]))
                    if by_param.get((gty, x[1])) == mname and (x[0], x[1]) not in used:
                        cands.append(x)
            if len(cands) != 1:
                cands = [x for x in nested if x[2] == mty and (x[0], x[1]) not in used]
                others = [m for m in missing if m[1] == mty]
                if len(others) != 1:
                    cands = []
            if len(cands) != 1:
                # name tokens: `k_val_f` ~ `k_word.fwd` (every token of the pinned name, fillers aside, equals or
                # abbreviates a token of the new path), same type
                cands = [x for x in nested if x[2] == mty and (x[0], x[1]) not in used and _tokens_match(mname, x[0], x[1])]
            if len(cands) != 1:
                mapping = None
                break
            used.add((cands[0][0], cands[0][1]))
            mapping[(cands[0][0], cands[0][1])] = (mname, cands[0])
        if not mapping:
            continue
        groups[spath] = mapping
    prog.field_groups = {s: {("%s.%s" % k if k[0] else k[1]): v[0] for k, v in m.items()} for s, m in groups.items()}
    if not groups:
        return
    # the struct's own description
    for spath, mapping in groups.items():
        adt = prog.adts[spath]
        fields = adt["variants"][0]["fields"]
        gnames = set(g for (g, _f) in mapping if g)
        for (g, f), (pin, x) in mapping.items():
            if g is None:
                for fd in fields:
                    if fd["name"] == f:
                        fd["renamed_from"] = f
                        fd["name"] = pin
                continue
            gvis, fvis = x[3], x[4]
            vis = fvis if not fvis.startswith("Public") else gvis     # reachable only through both
            fields.append({"name": pin, "vis": vis, "ty": x[2], "grouped_in": "%s.%s" % (g, f)})
        adt["grouped_fields"] = sorted(gnames)

    def rw(n):
        if isinstance(n, list):
            return [rw(x) for x in n]
        if not isinstance(n, dict):
            return n
        for key, v in list(n.items()):
            if isinstance(v, (dict, list)):
                n[key] = rw(v)
        k = n.get("k")
        if k == "field":
            m = groups.get(norm_path(n.get("adt", "")))
            if m and (None, n["name"]) in m:
                n["name"] = m[(None, n["name"])][0]
                return n
        if k == "pstruct":
            m = groups.get(norm_path(n.get("path", "")))
            if m:
                for fe in n.get("fields", []):
                    if (None, fe.get("name")) in m:
                        fe["name"] = m[(None, fe["name"])][0]
        if k == "field" and isinstance(n.get("e"), dict) and n["e"].get("k") == "field":
            inner = n["e"]
            s = norm_path(inner.get("adt", ""))
            m = groups.get(s)
            if m and (inner["name"], n["name"]) in m:
                return dict(n, name=m[(inner["name"], n["name"])][0], adt=inner.get("adt"), e=inner["e"], regrouped=True)
        if k == "struct":
            s = norm_path(n.get("adt") or n.get("path", ""))
            m = groups.get(s)
            if m:
                out = []
                for fe in n.get("fields", []):
                    sub = fe.get("e")
                    if (None, fe["name"]) in m:
                        out.append({"name": m[(None, fe["name"])][0], "e": sub})
                        continue
                    gs = [(g, f) for (g, f) in m if g == fe["name"]]
                    while gs and isinstance(sub, dict) and sub.get("k") == "block" and sub.get("expr") is not None:
                        sub = sub["expr"]           # an expanded constructor helper (`RollingWord::new(..)`)
                    if gs and isinstance(sub, dict) and sub.get("k") == "struct":
                        subf = {x["name"]: x["e"] for x in sub.get("fields", [])}
                        for (g, f) in gs:
                            if f in subf:
                                out.append({"name": m[(g, f)][0], "e": subf[f]})
                        continue
                    out.append(fe)
                n["fields"] = out
        return n
    for (unit, path), f in prog.fns.items():
        if f.get("_regrouped"):
            continue
        f["body"] = rw(f["body"])
        f["_regrouped"] = True


_FILLER = {"val", "value", "word", "reg", "state", "cfg", "config", "info", "data"}


def _tokens_match(pinned, group, field):
    pt = [t for t in pinned.lower().split("_") if t and t not in _FILLER]
    nt = [t for t in ((group or "") + "_" + field).lower().split("_") if t and t not in _FILLER]
    if not pt or not nt:
        return False
    left = list(nt)
    for t in pt:
        hit = next((u for u in left if u == t or u.startswith(t) or t.startswith(u)), None)
        if hit is None:
            return False
        left.remove(hit)
    return not left


def _walk_nodes(n):
    stack = [n]
    while stack:
        x = stack.pop()
        if isinstance(x, dict):
            yield x
            stack.extend(v for v in x.values() if isinstance(v, (dict, list)))
        elif isinstance(x, list):
            stack.extend(x)


# ------------------------------------------------------------------ argument normal form

def apply_arg_fields(prog):
    """A pinned method `fn f(&self, a, b)` that became an associated function taking the fields it needs
    (`fn f(a, b, ksize, bins)` called as `Self::f(a, b, self.ksize, self.bins)`) is presented as the method again:
    a parameter for which EVERY call site (all inside impls of the same type) passes the same `self.<field>` is that
    field; the call sites become method calls on `self`.  Only parameter passing changes, no computation."""
    from .facts import norm_path
    from .inline import _replace_locals
    known = load_known_items()
    pinned_params = known.get("fn_params", {})
    done = []
    for path, fs in list(prog.by_path.items()):
        pp = pinned_params.get(path)
        if not pp or pp[0] != "self":
            continue
        for f in fs:
            params = f.get("params", [])
            if f.get("dk") != "AssocFn" or any(p.get("k") == "pbind" and p.get("name") == "self" for p in params) \
                    or f.get("_argnorm"):
                continue
            S = path.rpartition("::")[0]
            sites = []
            for (unit, cp), g in prog.fns.items():
                if unit != f["unit"]:
                    continue
                for n in _walk_nodes(g["body"]):
                    if n.get("k") == "call" and norm_path(n.get("callee") or "") == path:
                        sites.append((g, n))
            if not sites or any(not g["npath"].startswith(S + "::") or len(n.get("args", [])) != len(params) for g, n in sites):
                continue
            mapping = {}
            for i, p in enumerate(params):
                if p.get("k") != "pbind" or "Mut)" in p.get("mode", ""):
                    continue
                names = set()
                for g, n in sites:
                    a = n["args"][i]
                    core = a
                    while isinstance(core, dict) and core.get("k") == "addr":
                        core = core["e"]
                    if isinstance(core, dict) and core.get("k") == "field" and core["e"].get("k") == "local" \
                            and core["e"].get("name") == "self":
                        names.add(core["name"])
                    else:
                        names.add(None)
                if len(names) == 1 and None not in names:
                    mapping[i] = (names.pop(), sites[0][1]["args"][i])
            if not mapping:
                continue
            sid = 800000000 + len(done)
            self_ty = None
            env = {}
            for i, (fname, sample) in mapping.items():
                core = sample
                depth = 0
                while core.get("k") == "addr":
                    core = core["e"]
                    depth += 1
                self_ty = self_ty or core["e"].get("ty")
                node = {"k": "field", "name": fname, "adt": core.get("adt"), "ty": core.get("ty"), "sp": f.get("sp"),
                        "e": {"k": "local", "name": "self", "id": sid, "ty": core["e"].get("ty"), "sp": f.get("sp")}}
                for _ in range(depth):
                    node = {"k": "addr", "ty": "&" + (node.get("ty") or ""), "sp": f.get("sp"), "e": node}
                env[params[i]["id"]] = node
            f["body"] = _replace_locals(f["body"], env)
            keep = [i for i in range(len(params)) if i not in mapping]
            order = keep
            want = pp[1:]
            names_now = [params[i].get("name") for i in keep]
            if sorted(want) == sorted(n_ for n_ in names_now if n_):
                order = [keep[names_now.index(w)] for w in want]
            f["params"] = [{"k": "pbind", "name": "self", "id": sid, "mode": "BindingMode(No, Not)", "ty": self_ty or "&" + S,
                            "sp": f.get("sp")}] + [params[i] for i in order]
            if isinstance(f.get("param_tys"), list) and len(f["param_tys"]) == len(params):
                f["param_tys"] = [self_ty or "&" + S] + [f["param_tys"][i] for i in order]
            f["_argnorm"] = True
            for g, n in sites:
                a0 = n["args"][next(iter(mapping))]
                while a0.get("k") == "addr":
                    a0 = a0["e"]
                recv = a0["e"]
                args = [n["args"][i] for i in order]
                n.update({"k": "mcall", "name": path.rpartition("::")[2], "recv": recv, "args": args, "arg_fields": True})
                n.pop("f", None)
            done.append((path, sorted(v[0] for v in mapping.values())))
    prog.arg_fields = done
