#!/usr/bin/env python3
"""For every seeded change, run its own property's check and classify the firing rules' messages:
'structural' = the rule only says it could not find / recognise the anchored shape; 'semantic' = it names what is wrong.
A change caught ONLY structurally is caught by accident: a better normal form would make it disappear."""
import glob, json, os, re, subprocess, sys
VERIF = os.path.dirname(os.path.dirname(os.path.abspath(__file__)))
STRUCT = re.compile(r"not found|no longer found|anchor|floor|expected (exactly )?one|expected \d|cannot (read|locate|classify)|"
                    r"found \d+\b|found \[\]|shape|unrecognised|rule engine", re.I)
only = sys.argv[1:]
out = []
for meta in sorted(glob.glob(os.path.join(VERIF, "seeded", "*", "meta.json"))):
    d = os.path.dirname(meta); name = os.path.basename(d)
    if only and not any(name.startswith(o) or o in name for o in only):
        continue
    prop = json.load(open(meta))["property"]
    r = subprocess.run([os.path.join(VERIF, "tools", "try_variant.py"), "--patch", d + "/patch.diff", prop],
                       capture_output=True, text=True)
    msgs = [l.strip() for l in r.stdout.splitlines() if re.match(r"\s+C\d+\.", l)]
    sem = [m for m in msgs if not STRUCT.search(m)]
    kind = "MISSED" if not msgs else ("semantic" if sem else "STRUCTURAL-ONLY")
    print(name, kind, len(msgs), (sem[0] if sem else (msgs[0] if msgs else ""))[:160], flush=True)
