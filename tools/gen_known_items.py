#!/usr/bin/env python3
"""(Re)generate engine/kmtlint/known_items.json from the tree KMT_REPO / /repo points at.

This file is the frozen description of the PINNED tree's item names that the load-time normal forms use to tell
"a function / field / constant the rules are anchored at" from "something a later change introduced":
  fns, consts, adts   def-paths
  fn_sigs             path -> [kind, parameter types, return type]
  fn_params           path -> parameter names
  adt_fields          struct path -> [(field, type)]
  callers             path -> pinned callers (workspace functions whose body calls it)
It holds names and signatures only, no code.  Run it ONLY on the pinned tree (plus the `fix:` commits); the checks never
write it.
"""
import json
import os
import sys

VERIF = os.path.dirname(os.path.dirname(os.path.abspath(__file__)))
sys.path.insert(0, VERIF)
from engine.kmtlint import facts  # noqa: E402
from engine.kmtlint.core import walk, cname, rname  # noqa: E402

out = os.path.join(VERIF, "engine", "kmtlint", "known_items.json")
# load without normal forms that need the file itself
prog = facts.load(os.environ.get("KMT_REPO", "/repo"))
known = {"fns": sorted(set(p for (_, p) in prog.fns)), "consts": sorted(prog.consts), "adts": sorted(prog.adts)}
known["fn_sigs"] = {p: [f.get("dk"), f.get("param_tys"), f.get("ret")] for (_, p), f in prog.fns.items()
                    if f.get("dk") in ("Fn", "AssocFn")}
known["fn_params"] = {p: [q.get("name") if q.get("k") == "pbind" else None for q in f.get("params", [])]
                      for (_, p), f in prog.fns.items() if f.get("dk") in ("Fn", "AssocFn")}
known["adt_fields"] = {p: [(f["name"], f.get("ty", "")) for f in a["variants"][0]["fields"]]
                       for p, a in sorted(prog.adts.items()) if a.get("dk") == "Struct" and a.get("variants")}
callers = {}
for (_, p), f in prog.fns.items():
    for n in walk(f["body"]):
        if n.get("k") in ("call", "mcall"):
            for c in (cname(n), rname(n)):
                if c and c in prog.by_path and c != p:
                    callers.setdefault(c, set()).add(p)
known["callers"] = {k: sorted(v) for k, v in sorted(callers.items())}
json.dump(known, open(out, "w"), indent=0, sort_keys=True)
print({k: len(v) for k, v in known.items()})
