#!/usr/bin/env python3
"""Re-run every check against every filed seeded change (scratch copies) and refresh meta.json's
checked_by / expect_rules / missed_by.  The demonstrations are not re-run (see validate_seed.py)."""
import glob
import json
import os
import re
import subprocess
import sys

VERIF = os.path.dirname(os.path.dirname(os.path.abspath(__file__)))
ALL = ["C%02d" % i for i in range(1, 19)]
only = sys.argv[1:]
for meta in sorted(glob.glob(os.path.join(VERIF, "seeded", "*", "meta.json"))):
    d = os.path.dirname(meta)
    name = os.path.basename(d)
    if only and name not in only:
        continue
    r = subprocess.run([os.path.join(VERIF, "tools", "try_variant.py"), "--patch", d + "/patch.diff"] + ALL,
                       capture_output=True, text=True)
    fired, cur = {}, None
    for line in r.stdout.splitlines():
        mm = re.match(r"== (C\d+) rc=(\d+)", line)
        if mm:
            cur = mm.group(1)
            fired[cur] = {"rc": int(mm.group(2)), "rules": []}
        mm = re.match(r"\s+(C\d+\.[^:\s]+):", line)
        if mm and cur and mm.group(1) not in fired[cur]["rules"]:
            fired[cur]["rules"].append(mm.group(1))
    m = json.load(open(meta))
    caught = sorted(c for c, v in fired.items() if v["rc"] == 1)
    m["checked_by"] = caught
    m["expect_rules"] = {c: fired[c]["rules"] for c in caught}
    m["missed_by"] = sorted(c for c, v in fired.items() if v["rc"] == 0)
    m["checker_errors"] = sorted(c for c, v in fired.items() if v["rc"] == 2)
    json.dump(m, open(meta, "w"), indent=1)
    print(name, "own-property check fires:", m["property"] in caught, "| caught by", caught, "| errors", m["checker_errors"])
