#!/usr/bin/env python3
"""Apply a patch (unified diff, or `file::old::new` textual substitutions) to a scratch copy of
/repo outside /repo and /verif, run ./check for the given properties against it, remove the copy.

usage: try_variant.py [--keep] (--patch P | --sub FILE@@OLD@@NEW ...) C01 [C02 ...]
"""
import argparse
import os
import shutil
import subprocess
import sys
import tempfile

VERIF = os.path.dirname(os.path.dirname(os.path.abspath(__file__)))


def make_scratch(repo="/repo"):
    d = tempfile.mkdtemp(prefix="kmt-scratch-", dir=os.environ.get("KMT_SCRATCH", "/tmp"))
    subprocess.check_call(["rsync", "-a", "--exclude", "/target", "--exclude", "/.git",
                           "--exclude", "/test_data", repo + "/", d + "/"])
    return d


def main():
    ap = argparse.ArgumentParser()
    ap.add_argument("--patch")
    ap.add_argument("--sub", action="append", default=[])
    ap.add_argument("--keep", action="store_true")
    ap.add_argument("--tier", default="quick")
    ap.add_argument("props", nargs="+")
    a = ap.parse_args()
    d = make_scratch()
    rc_all = {}
    try:
        if a.patch:
            r = subprocess.run(["patch", "-p1", "-s", "-i", os.path.abspath(a.patch)], cwd=d)
            if r.returncode != 0:
                print("PATCH-DOES-NOT-APPLY")
                return 3
        for s in a.sub:
            f, old, new = s.split("@@", 2)
            old = old.encode().decode("unicode_escape")
            new = new.encode().decode("unicode_escape")
            p = os.path.join(d, f)
            txt = open(p).read()
            if txt.count(old) < 1:
                print("SUB-NOT-FOUND %r in %s" % (old, f))
                return 3
            txt = txt.replace(old, new, 1)
            open(p, "w").write(txt)
        env = dict(os.environ, KMT_REPO=d)
        for prop in a.props:
            r = subprocess.run([os.path.join(VERIF, "check"), prop, "--tier", a.tier], env=env,
                               capture_output=True, text=True)
            out = r.stdout.replace(d + "/", "")
            lines = [l for l in out.splitlines() if l.strip()]
            print("== %s rc=%d" % (prop, r.returncode))
            for l in lines:
                if "VIOLATION" in l or "CHECKER-ERROR" in l or l.startswith("C") or l.startswith("    at") or l.startswith("KNOWN"):
                    print("   " + l[:400])
            if r.returncode == 2:
                print(r.stdout[-1500:], r.stderr[-1500:])
            rc_all[prop] = r.returncode
    finally:
        if not a.keep:
            shutil.rmtree(d, ignore_errors=True)
        else:
            print("kept", d)
    return 0


if __name__ == "__main__":
    sys.exit(main())
