#!/usr/bin/env python3
"""Confirm a seeded change produced by an independent sub-agent, then file it under /verif/seeded/.

For /tmp/seed-out/<Cnn>/<mN>:  in a scratch git worktree of /repo (outside /repo and /verif)
  (a) demo only        -> demo passes
  (b) change + demo    -> demo fails
  (c) change only      -> the full existing suite passes (35 tests)
then run the given ./check ids against the change (scratch copy) and record which rules fire.
usage: validate_seed.py Cnn mN [check ids...]
"""
import json
import os
import re
import shutil
import subprocess
import sys

VERIF = os.path.dirname(os.path.dirname(os.path.abspath(__file__)))
WT = os.environ.get("SEED_WT", "/tmp/wt-validate")
ALL = ["C%02d" % i for i in range(1, 19)]


def sh(cmd, cwd=WT, env=None, check=False, timeout=3000):
    e = dict(os.environ, CARGO_TARGET_DIR=WT + "/target", CARGO_NET_OFFLINE="true")
    if env:
        e.update(env)
    r = subprocess.run(cmd, shell=True, cwd=cwd, env=e, capture_output=True, text=True, timeout=timeout)
    if check and r.returncode != 0:
        raise SystemExit("FAILED: %s\n%s\n%s" % (cmd, r.stdout[-2000:], r.stderr[-2000:]))
    return r


def clean():
    sh("git checkout -- . && git clean -fdq -e target")


def run_demo(src):
    r = sh("bash %s/demo/run.sh %s" % (src, WT))
    return r.returncode


def main():
    prop, m = sys.argv[1], sys.argv[2]
    checks = sys.argv[3:] or [prop]
    base = os.environ.get("SEED_BASE", "/tmp/seed-out")
    tag = os.environ.get("SEED_TAG", "")
    src = "%s/%s/%s" % (base, prop, m)
    if not os.path.isdir(WT):
        subprocess.check_call(["git", "-C", "/repo", "worktree", "add", "--detach", WT, "HEAD"], stdout=subprocess.DEVNULL)
    else:
        sh("git checkout -q --detach $(git -C /repo rev-parse HEAD)")
    clean()
    res = {}
    # (a)
    has_diff = os.path.exists(src + "/demo/demo.diff")
    if has_diff:
        sh("git apply %s/demo/demo.diff" % src, check=True)
    res["demo_without_change"] = run_demo(src)
    clean()
    # (b)
    sh("git apply %s/patch.diff" % src, check=True)
    if has_diff:
        sh("git apply %s/demo/demo.diff" % src, check=True)
    res["demo_with_change"] = run_demo(src)
    clean()
    # (c)
    sh("git apply %s/patch.diff" % src, check=True)
    r = sh("cargo test --workspace --no-fail-fast --offline 2>&1 | grep -E '^test result'")
    passed = sum(int(x) for x in re.findall(r"(\d+) passed", r.stdout))
    failed = sum(int(x) for x in re.findall(r"(\d+) failed", r.stdout))
    res["suite_with_change"] = {"passed": passed, "failed": failed}
    clean()
    ok = res["demo_without_change"] == 0 and res["demo_with_change"] != 0 and passed == 35 and failed == 0
    res["confirmed"] = ok
    # our checks
    fired = {}
    r = subprocess.run([os.path.join(VERIF, "tools", "try_variant.py"), "--patch", src + "/patch.diff"] + checks,
                       capture_output=True, text=True)
    cur = None
    for line in r.stdout.splitlines():
        mm = re.match(r"== (C\d+) rc=(\d+)", line)
        if mm:
            cur = mm.group(1)
            fired[cur] = {"rc": int(mm.group(2)), "rules": []}
        mm = re.match(r"\s+(C\d+\.[^:\s]+):", line)
        if mm and cur:
            if mm.group(1) not in fired[cur]["rules"]:
                fired[cur]["rules"].append(mm.group(1))
    res["checks"] = fired
    print(json.dumps(res, indent=1))
    if ok:
        dst = os.path.join(VERIF, "seeded", "%s-%s%s" % (prop, tag, m))
        if os.path.isdir(dst):
            shutil.rmtree(dst)
        os.makedirs(dst)
        shutil.copy(src + "/patch.diff", dst + "/patch.diff")
        if os.path.exists(src + "/bug_only.diff"):          # the slip alone, when patch.diff = refactored base + slip
            shutil.copy(src + "/bug_only.diff", dst + "/bug_only.diff")
        shutil.copytree(src + "/demo", dst + "/demo")
        readme = open(src + "/README.md").read() if os.path.exists(src + "/README.md") else ""
        open(dst + "/README.md", "w").write(readme)
        caught = sorted(c for c, v in fired.items() if v["rc"] == 1)
        meta = {
            "property": prop,
            "source": "independent sub-agent given only the property text and a scratch worktree",
            "needs_to_manifest": (re.search(r"(?is)(manifest|needs|circumstance)[^\n]*\n?(.{0,600})", readme) or [None, None, ""])[2].strip()[:600],
            "what_was_run": {
                "demo_without_change_exit": res["demo_without_change"],
                "demo_with_change_exit": res["demo_with_change"],
                "existing_suite_with_change": res["suite_with_change"],
                "commands": ["git apply demo/demo.diff; bash demo/run.sh <worktree>",
                             "git apply patch.diff demo/demo.diff; bash demo/run.sh <worktree>",
                             "git apply patch.diff; cargo test --workspace --no-fail-fast --offline"],
            },
            "checked_by": caught,
            "expect_rules": {c: fired[c]["rules"] for c in caught},
            "missed_by": sorted(c for c, v in fired.items() if v["rc"] == 0),
            "repo_commit": subprocess.check_output(["git", "-C", "/repo", "rev-parse", "--short", "HEAD"], text=True).strip(),
        }
        json.dump(meta, open(dst + "/meta.json", "w"), indent=1)
        print("filed", dst, "caught by", caught)
    return 0 if ok else 1


if __name__ == "__main__":
    sys.exit(main())
