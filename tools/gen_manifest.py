#!/usr/bin/env python3
"""Regenerate /verif/MANIFEST.json from the rule modules' metadata."""
import importlib
import json
import os
import sys

VERIF = os.path.dirname(os.path.dirname(os.path.abspath(__file__)))
sys.path.insert(0, VERIF)

TECHNIQUE = {
 "C01": "static analysis: exhaustive comparison of the compiler-evaluated byte table + 2-adic/linear normal forms of mask/shift + slot rules on enumerated structured paths of next()",
 "C02": "static analysis: finite-table inversion check (decode arms, complement constant) + symbolic straight-line composition of the codec loop bodies",
 "C03": "static analysis: construction-shape rules (set->sort->enumerate), constructor coherence, sibling header builders, canonical-min use sites",
 "C04": "static analysis: slot agreement of the three accumulation loops (sibling cross-check) + format-template decoding",
 "C05": "static analysis: lock-held take (receiver typing), ordinal term composition, offset polynomial identity, rayon pipeline typing, push/flush typestate on structured paths",
 "C06": "static analysis: who-may-construct decoder rule, suffix-table comparison, resolved accessor callees, sibling agreement of stats pass and iterator",
 "C07": "static analysis: atomic-entry idiom table, take-then-count path typestate, writer/reader template and role agreement, routing-term identity",
 "C08": "static analysis: bin-term matching, counter hand-over rules, writer/loader template agreement, flush typestate, duplicated-block agreement",
 "C09": "static analysis: path-wise symbolic composition of the minimiser state machine (sentinel typestate, run closure, reset completeness, guard operators, coordinates)",
 "C10": "static analysis: one-write-per-record path rule under the writer guard, inversion tuple agreement, sibling agreement of iterator construction, window-clamp rule",
 "C11": "static analysis: exhaustive corner-table comparison + symbolic midpoint term per path in three sibling loops + rejection-edge rule",
 "C12": "static analysis: rank-ordered zip rule, accumulation-family membership, per-k-mer marker restart, corner table of this copy",
 "C13": "static analysis: sibling agreement binding vs core (slot families), delegation by resolved callee, ownership rules around the transmute, pipeline typing, registration exhaustiveness",
 "C14": "static analysis: unchecked-index provenance table + who-may-write invariant fields + polynomial identity mapped size == row length + compile_fail witnesses",
 "C15": "static analysis: clap range table read from the derive expansion, preset tables, option->setter flow table with polarity (by effect), refusal-before-output on the call graph",
 "C16": "static analysis: sibling rules for the structural causes of failure on degenerate input (sniff guard, tail-flush condition, window clamp, sentinel typestate, normaliser guard, exhaustion-first)",
 "C17": "static analysis: who-may-open-for-write enumeration (truncation), set_len-before-map, grid-only chunk reads, no directory listing (zero-site rule with positive control)",
 "C18": "static analysis: equivalence of two state machines as equality of projected symbolic path signatures + non-interference + k-list carrying rule",
}

PENDING_REASON = ("static rule set for this property is designed (DESIGN.md §4) but not built yet in this "
                  "round; not claimed until its check exists")

checks, na = [], []
for i in range(1, 19):
    pid = "C%02d" % i
    try:
        mod = importlib.import_module("engine.kmtlint.rules.%s" % pid.lower())
    except ModuleNotFoundError:
        na.append({"property_id": pid, "reason": PENDING_REASON})
        continue
    if getattr(mod, "NOT_APPLICABLE", None):
        na.append({"property_id": pid, "reason": mod.NOT_APPLICABLE})
        continue
    checks.append({
        "property_id": pid,
        "quick_cmd": "./check %s --tier quick" % pid,
        "thorough_cmd": "./check %s --tier thorough" % pid,
        "evidence_file": "/verif/evidence/%s.json" % pid,
        "replay_cmd_template": "./check --replay {path}",
        "engine": "kmtlint",
        "level_claimed": {
            "category": "other",
            "text": getattr(mod, "LEVEL_TEXT", mod.EXPLANATION),
            "design_ref": "DESIGN.md §4 %s" % pid,
        },
        "level_note": getattr(mod, "LEVEL_NOTE", "Trusted: rustc nightly front end (HIR/typeck/const-eval), "
                              "cargo build plan, documented semantics of third-party crates, spec tables "
                              "transcribed from properties.jsonl. " + " ".join(getattr(mod, "ASSUMPTIONS", []))),
        "technique": getattr(mod, "TECHNIQUE", TECHNIQUE.get(pid, "static analysis: custom rules over typed HIR facts")),
    })

m = {
    "version": 1,
    "setup_cmd": "cd engine/kmt-facts && CARGO_NET_OFFLINE=true cargo +nightly build --release --offline && cd ../.. && python3 -m engine.kmtlint.selfcheck",
    "hooks": {
        "guard": "kmertools_verif",
        "enable": "none needed: the checks are static (a rustc_private driver run under `cargo +nightly check`); no instrumentation is compiled into /repo",
        "baseline_off_cmd": "cd /repo && cargo test --workspace --no-fail-fast --offline",
        "source_commits": [],
        "add_only": True,
    },
    "engines": [
        {"name": "kmt-facts", "path": "engine/kmt-facts", "serves_properties": [c["property_id"] for c in checks],
         "kind_free_text": "rustc_private driver (RUSTC_WORKSPACE_WRAPPER under cargo +nightly check): typed HIR trees with resolved callees, ADTs, impls, compiler-evaluated constants, MIR call/assert terminators, as JSON facts"},
        {"name": "kmtlint", "path": "engine/kmtlint", "serves_properties": [c["property_id"] for c in checks],
         "kind_free_text": "repository-specific static rules (python3 stdlib) over the facts: finite-table comparison, term reconstruction, algebraic normal forms, guard contexts, structured-path typestate, who-may-call/write, sibling agreement"},
    ],
    "checks": checks,
    "not_applicable": na,
    "notes": "Technique family: static analysis only. Every check re-extracts facts from /repo's current working tree (cache keyed by a hash of the tree) and never executes kmertools code. Exit 0 = all rule instances hold (KNOWN-FINDING lines allowed), 1 = VIOLATION, 2 = CHECKER-ERROR (machinery could not run).",
}
with open(os.path.join(VERIF, "MANIFEST.json"), "w") as fh:
    json.dump(m, fh, indent=1)
print("checks:", [c["property_id"] for c in checks], "n/a:", [x["property_id"] for x in na])
